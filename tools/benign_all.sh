#!/bin/bash
# Runs every relevant quick check against the behaviour-preserving refactorings (must all exit 0).
cd /verif
for d in seeded/B*; do
  props=$(/venv/bin/python -c "import json; print(json.load(open('$d/meta.json'))['properties_checked'].replace(',',' '))")
  base=$(/venv/bin/python -c "import json; print(json.load(open('$d/meta.json')).get('base_commit',''))")
  for prop in $props; do
    echo "=== $d ($prop)"; BASE_COMMIT=$base tools/mutant.sh $d/patch.diff $prop > $d/result-$prop.txt 2>&1; tail -1 $d/result-$prop.txt
  done
done
