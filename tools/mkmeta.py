#!/venv/bin/python
"""usage: tools/mkmeta.py <seeded dir> <prop> <wave> <change> <needs> <history>  - writes meta.json from eval.txt"""
import json, sys, os, re, subprocess
d, prop, wave, change, needs, history = sys.argv[1:7]
ev = open(os.path.join(d, "eval.txt")).read().splitlines()
def pick(pfx):
    for l in ev:
        if l.startswith(pfx):
            return l[len(pfx):].strip()
    return "?"
head = subprocess.run(["git", "-C", "/repo", "rev-parse", "--short", "HEAD"], capture_output=True, text=True).stdout.strip()
wo, wi = pick("demo without patch:"), pick("demo with patch:")
meta = {"id": os.path.basename(d.rstrip("/")), "breaks_property": prop, "change": change, "needs_to_manifest": needs,
        "origin": "written by an independent sub-agent (%s wave) that was given only the property text and a scratch git worktree of /repo (no access to /verif)" % wave,
        "confirmed": {"how": "tools/seeded_eval.sh <dir> --tests in a scratch copy of /repo at HEAD %s" % head,
                      "demo_without_patch": ("PASS (exit 0)" if "rc=0" in wo and "PASS" in wo else wo),
                      "demo_with_patch": ("FAIL (exit 1)" if "rc=1" in wi and "FAIL" in wi else wi),
                      "test_suite_with_patch": re.sub(r",\s*\d+ warnings.*", "", pick("test suite with patch:")) + " (identical to the unpatched tree)"},
        "checked_with": "tools/mutant.sh %s/patch.diff %s" % (d.rstrip("/"), prop), "history": history}
json.dump(meta, open(os.path.join(d, "meta.json"), "w"), indent=1)
print(json.dumps(meta["confirmed"]))
