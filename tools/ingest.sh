#!/bin/bash
# usage: tools/ingest.sh <delivery dir> <seeded id dir name> <prop>
# copies an independently written breaking change into seeded/<id>/, confirms it (seeded_eval --tests) and
# runs the quick tier of the property's check against it (scratch copy; /repo is never modified)
set -u
src=$1; id=$2; prop=$3
mkdir -p /verif/seeded/$id
cp $src/patch.diff $src/demo.py /verif/seeded/$id/
[ -f $src/notes.md ] && cp $src/notes.md /verif/seeded/$id/
cd /verif
tools/seeded_eval.sh seeded/$id --tests 2>&1 | grep -v conda | tee seeded/$id/eval.txt
tools/mutant.sh seeded/$id/patch.diff $prop > seeded/$id/result-$prop.txt 2>&1
grep -E "signature|exit=|HARNESS|PATCH" seeded/$id/result-$prop.txt | cut -c1-220 | head -8
