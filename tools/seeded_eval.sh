#!/bin/bash
# usage: tools/seeded_eval.sh <dir with patch.diff + demo.py> [--tests]
# Confirms an independently written breaking change in a scratch copy of /repo (never in /repo):
# patch applies, demo PASSes without and FAILs with the patch, (optionally) the test suite is unchanged.
set -u
src=$(readlink -f "$1"); tests=${2:-}
d=$(mktemp -d /dev/shm/seval-XXXXXX)
rsync -a --exclude .git --exclude '*.pyc' --exclude __pycache__ /repo/ $d/repo/
cd $d
echo -n "demo without patch: "; (cd $d && PYTHONPATH=$d/repo MPLBACKEND=Agg timeout 600 /venv/bin/python $src/demo.py 2>&1 | grep -v conda | tail -1; echo "rc=${PIPESTATUS[0]}") | tr '\n' ' '; echo
if ! (cd $d/repo && patch -p1 -s < $src/patch.diff); then echo "PATCH-FAILED"; rm -rf $d; exit 3; fi
echo -n "demo with patch:    "; (cd $d && PYTHONPATH=$d/repo MPLBACKEND=Agg timeout 600 /venv/bin/python $src/demo.py 2>&1 | grep -v conda | tail -1; echo "rc=${PIPESTATUS[0]}") | tr '\n' ' '; echo
if [ "$tests" = "--tests" ]; then
  echo -n "test suite with patch: "; (cd $d/repo && PYTHONPATH=$d/repo MPLBACKEND=Agg timeout 1200 /venv/bin/python -m pytest -q -p no:cacheprovider -n 8 2>&1 | tail -1)
fi
rm -rf $d
