#!/bin/bash
# usage: tools/mutant.sh <patch.diff> <prop> [extra check args]
# Applies the patch to a scratch copy of /repo (never to /repo itself), runs the check against it,
# prints the verdict, removes the copy. Evidence/replays of the run go to a scratch directory.
set -u
patch=$(readlink -f "$1"); prop=$2; shift 2
d=$(mktemp -d /dev/shm/mut-XXXXXX)
mkdir -p $d/repo $d/ev $d/rep
if [ -n "${BASE_COMMIT:-}" ]; then
  # the patch was written against an older commit of /repo (a later fix: commit touched the same lines)
  git -C /repo archive "$BASE_COMMIT" | tar -x -C $d/repo
else
  rsync -a --exclude .git --exclude '*.pyc' --exclude __pycache__ /repo/ $d/repo/
fi
if ! (cd $d/repo && patch -p1 -s < "$patch"); then echo "PATCH-FAILED"; rm -rf $d; exit 3; fi
VERIF_REPO=$d/repo VERIF_EVIDENCE_DIR=$d/ev VERIF_REPLAY_DIR=$d/rep /verif/check $prop "$@" 2>&1 | grep -v "conda" | grep -E "VIOLATION|KNOWN|HARNESS|signature|runs=" | head -12
rc=${PIPESTATUS[0]}
echo "exit=$rc"
rm -rf $d
exit $rc
