#!/bin/bash
# usage: tools/run_seeded.sh S33 S34 ...   (prefix match) - runs the relevant quick check against each
cd /verif
for pre in "$@"; do for d in seeded/${pre}*; do
  prop=$(/venv/bin/python -c "import json; print(json.load(open('$d/meta.json'))['breaks_property'])")
  echo "=== $d ($prop)"; tools/mutant.sh $d/patch.diff $prop > $d/result-$prop.txt 2>&1
  grep -E "signature|exit=|HARNESS" $d/result-$prop.txt | cut -c1-200 | head -5
done; done
