#!/bin/bash
# Runs the quick tier of the property each seeded change breaks against it (scratch copies; /repo untouched)
# and writes seeded/<id>/result-<prop>.txt; then regenerates seeded/README.md.
cd /verif
for d in seeded/S*; do
  [ -f $d/meta.json ] || continue
  prop=$(/venv/bin/python -c "import json,sys; print(json.load(open('$d/meta.json'))['breaks_property'])")
  echo "=== $d ($prop)"; tools/mutant.sh $d/patch.diff $prop > $d/result-$prop.txt 2>&1; tail -1 $d/result-$prop.txt
done
/venv/bin/python tools/seeded_readme.py
