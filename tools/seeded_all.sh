#!/bin/bash
# Runs the quick tier of the property each seeded change breaks (and C18, which sees most state leaks) against it.
cd /verif
for d in seeded/S*; do
  prop=$(/venv/bin/python -c "import json,sys; print(json.load(open('$d/meta.json'))['breaks_property'])")
  echo "=== $d ($prop)"; tools/mutant.sh $d/patch.diff $prop > $d/result-$prop.txt 2>&1; tail -1 $d/result-$prop.txt
done
