import glob, json, os, re
rows = []
for d in sorted(glob.glob("/verif/seeded/S*")):
    if not os.path.exists(d + '/meta.json'):
        continue
    m = json.load(open(d + '/meta.json'))
    prop = m['breaks_property']
    rf = d + '/result-%s.txt' % prop
    sigs, verdict = [], 'not run'
    if os.path.exists(rf):
        txt = open(rf).read()
        for mm in re.finditer(r'signature: (.*?)\s+runs: \[(.*?)\]', txt):
            sigs.append('%s (%d+ runs)' % (mm.group(1).strip(), len(mm.group(2).split(','))))
        ex = re.findall(r'exit=(\d+)', txt)
        verdict = {'1': 'CAUGHT', '0': 'missed', '2': 'harness error'}.get(ex[-1] if ex else '', 'unknown')
    rows.append((m['id'], prop, m['change'], m['needs_to_manifest'], verdict, sigs, m.get('history', '')))
out = ['# Independently written breaking changes and what the checks say about them', '',
       'Each directory holds `patch.diff` (never applied to /repo itself), the author\'s `demo.py` (passes without, fails with',
       'the patch), `notes.md`, `meta.json` and `result-<prop>.txt` (output of `tools/mutant.sh <patch> <prop>`, quick tier, seed 1).',
       'Regenerate with `tools/seeded_all.sh`.', '',
       '| id | property | change | needs | quick check | signatures reported | history |', '|---|---|---|---|---|---|---|']
for r in rows:
    out.append('| %s | %s | %s | %s | **%s** | %s | %s |' % (r[0], r[1], r[2], r[3], r[4], '; '.join(r[5][:4]) or '-', r[6]))
open('/verif/seeded/README.md', 'w').write('\n'.join(out) + '\n')
print('\n'.join(out[-len(rows):]))
