"""C11 oracle: slicing along -x partitions the cases using correct (UTC) calendar buckets.

Operations handled here (all against the live dataset, under whatever time zone / clock the
environment schedule has set at that moment):

  sweep    every slice of one axis for one input (+ the pooled 'No' request): buckets equal the
           integer calendar model, slices are disjoint, their union is the pooled set, counts add up,
           pooled MAE equals the count-weighted mean of the slice MAEs; an environment jump may land
           in the middle of the sweep
  labels   Data.get_axis_descriptions against the model's formatted dates / location metadata
  buckets  every bucket function on boundary-biased instants against the model
  conv     date <-> unixtime <-> datenum conversions, mutually inverse and equal to the model,
           for a range of calendar days (all of 1900-2100 in the thorough tier)

Plain `req` operations are additionally checked by refinement against a fresh dataset evaluated
under TZ=UTC (so a result may not depend on the zone in force at construction or request time).
"""
import os

import numpy as np

from .engine_data import Oracle, adigest, describe_req, mk_axis, Quiet, classify
from . import model_calendar as MC
from . import oracle_c01

DAY0 = MC.days_from_civil(1900, 1, 1)
DAYN = MC.days_from_civil(2100, 12, 31)
TIME_AXES = ["Year", "Month", "Week", "Day", "Timeofday", "Dayofyear", "Dayofmonth", "Monthofyear"]
LOC_AXES = {"Location": "id", "Lat": "lat", "Lon": "lon", "Elev": "elev"}


class C11Oracle(Oracle):
    name = "C11"

    def begin(self, sim):
        self.dec = oracle_c01.C01Oracle()
        self.dec.begin(sim)
        self.u = sim.world["universe"]

    # ---------------------------------------------------------------- requests
    def after_request(self, sim, step, record):
        ref = record.get("ref")
        if ref is None or record["fired"]:
            return
        if ref["status"].startswith("construct:"):
            return
        if record["status"] == "ok" and ref["status"] == "ok":
            if record["dig"] != ref["dig"]:
                sim.violate(step, "env_dependent_result", {"request": describe_req(record["req"]),
                                                           "zone": sim.env.zone, "axis": record["req"]["axis"]})
        elif (record["status"] == "ok") != (ref["status"] == "ok"):
            sim.violate(step, "env_dependent_result", {"request": describe_req(record["req"]), "zone": sim.env.zone,
                                                       "axis": record["req"]["axis"],
                                                       "live": record["status"], "ref": ref["status"]})

    # ---------------------------------------------------------------- ops
    def handle(self, sim, step, op, rec):
        k = op["op"]
        if k == "sweep":
            self.sweep(sim, step, op, rec)
            return True
        if k == "labels":
            self.labels(sim, step, op, rec)
            return True
        if k == "buckets":
            self.buckets(sim, step, op, rec)
            return True
        if k == "conv":
            self.conv(sim, step, op, rec)
            return True
        if k == "cli":
            self.cli(sim, step, op, rec)
            return True
        if k == "diagram":
            self.diagram(sim, step, op, rec)
            return True
        return False

    def diagram(self, sim, step, op, rec):
        """A plot drawn between the calendar operations (after S67): a perturbation of the process state only
        (matplotlib rcParams, pyplot state, module globals) - its own outcome is logged, the verdicts come from
        the labels / conversions / tables that follow."""
        import io
        import contextlib
        import verif.driver
        import matplotlib.pyplot as mpl
        argv = ["verif", sim.names[op.get("input", 0) % sim.n_inputs], "-m", op["metric"], "-f", "c11-diagram.png"]
        if op.get("date_index") is not None:
            t = sim.world["universe"]["times"][op["date_index"] % len(sim.world["universe"]["times"])]
            from . import model_calendar as MC
            y, m, d = MC.civil_from_days(int(t) // 86400)
            argv += ["-d", "%04d%02d%02d" % (y, m, d)]
        status = "ok"
        try:
            with contextlib.redirect_stdout(io.StringIO()):
                verif.driver.run(argv)
        except (SystemExit, Exception) as e:
            status = classify(e)
        try:
            mpl.close("all")
        except Exception:
            pass
        if os.path.exists("c11-diagram.png"):
            os.remove("c11-diagram.png")
        rec["diagram"] = status
        sim.stats["fired:diagram_between_calendar_ops"] += 1
        if status == "ok":
            sim.stats["probe:diagram_drawn"] += 1

    def cli(self, sim, step, op, rec):
        """`verif files -m obs -agg count -x <axis> -type csv` end to end: row labels against the calendar
        model, one row per slice, counts equal to what the data layer returns slice by slice."""
        import io
        import contextlib
        import verif.driver
        axis = op["axis"]
        data = sim.datasets[0]
        if sim.config:
            return
        argv = ["verif"] + list(sim.names[:sim.n_inputs]) + ["-m", "obs", "-agg", "count", "-x", axis.lower(), "-type", "csv"]
        buf = io.StringIO()
        try:
            with contextlib.redirect_stdout(buf):
                verif.driver.run(argv)
        except (SystemExit, Exception) as e:
            sim.violate(step, "cli_rows", {"axis": axis, "error": classify(e), "zone": sim.env.zone, "out": buf.getvalue()[-300:]})
            return
        lines = [l for l in buf.getvalue().splitlines() if l and not l.startswith("\x1b")]
        rec["cli"] = lines[:6]
        if not lines:
            sim.violate(step, "cli_rows", {"axis": axis, "error": "no output", "zone": sim.env.zone})
            return
        header = lines[0].split(",")
        rows = [l.split(",") for l in lines[1:]]
        exp, _ = self.expected_axis(sim, data, axis)
        ndesc = 4 if axis in LOC_AXES else 1
        if len(rows) != len(exp):
            sim.violate(step, "cli_rows", {"axis": axis, "rows": len(rows), "expected": len(exp), "zone": sim.env.zone})
            return
        # labels
        for s_, row in enumerate(rows):
            if axis in ("Time", "Year", "Month", "Week", "Day"):
                want = MC.label(axis, exp[s_])
                if row[0] != want:
                    sim.violate(step, "cli_rows", {"axis": axis, "row": s_, "label": row[0], "expected": want, "zone": sim.env.zone})
                    return
            elif axis in LOC_AXES:
                byid = {l["id"]: l for l in self.u["locations"]}
                l = byid[int(data.locations[s_].id)]
                got = [float(x) for x in row[:4]]
                if got != [float(l["id"]), float(l["lat"]), float(l["lon"]), float(l["elev"])]:
                    sim.violate(step, "cli_rows", {"axis": axis, "row": s_, "label": row[:4], "zone": sim.env.zone})
                    return
            else:
                if not _same(row[0], exp[s_]):
                    sim.violate(step, "cli_rows", {"axis": axis, "row": s_, "label": row[0], "expected": exp[s_], "zone": sim.env.zone})
                    return
        # counts against the data layer, slice by slice and input by input
        for i in range(sim.n_inputs):
            for s_, row in enumerate(rows):
                r = self.request(sim, step, [["Obs"]], i, axis, s_, rec)
                if sim.violation is not None:
                    return
                if r["status"] != "ok":
                    return
                a = np.asarray(r["arrays"][0])
                n = int(np.sum(~np.isnan(a)))
                try:
                    got = float(row[ndesc + i])
                except (IndexError, ValueError):
                    sim.violate(step, "cli_rows", {"axis": axis, "row": s_, "error": "unparsable", "line": row, "zone": sim.env.zone})
                    return
                if got != n:
                    sim.violate(step, "cli_rows", {"axis": axis, "row": s_, "input": i, "count": got, "expected": n, "zone": sim.env.zone})
                    return
        sim.stats["probe:cli_count_tables"] += 1
        # the same table for a score that is undefined for an empty slice: still one row per slice, in
        # axis order, 'nan' exactly where no case is left
        argv2 = ["verif"] + list(sim.names[:sim.n_inputs]) + ["-m", "obs", "-x", axis.lower(), "-type", "csv"]
        buf = io.StringIO()
        try:
            with contextlib.redirect_stdout(buf):
                verif.driver.run(argv2)
        except (SystemExit, Exception) as e:
            sim.violate(step, "cli_rows", {"axis": axis, "error": classify(e), "zone": sim.env.zone, "table": "mean"})
            return
        lines2 = [l for l in buf.getvalue().splitlines() if l and not l.startswith("\x1b")]
        rows2 = [l.split(",") for l in lines2[1:]]
        if len(rows2) != len(rows):
            sim.violate(step, "cli_rows", {"axis": axis, "rows": len(rows2), "expected": len(rows), "table": "mean", "zone": sim.env.zone})
            return
        for s_, (rc, rm) in enumerate(zip(rows, rows2)):
            if rc[:ndesc] != rm[:ndesc]:
                sim.violate(step, "cli_rows", {"axis": axis, "row": s_, "label": rm[:ndesc], "expected": rc[:ndesc], "table": "mean", "zone": sim.env.zone})
                return
            for i in range(sim.n_inputs):
                try:
                    empty = float(rc[ndesc + i]) == 0
                    isnan = rm[ndesc + i].strip().lower() == "nan"
                except (IndexError, ValueError):
                    sim.violate(step, "cli_rows", {"axis": axis, "row": s_, "error": "unparsable", "table": "mean", "zone": sim.env.zone})
                    return
                if empty != isnan:
                    sim.violate(step, "cli_rows", {"axis": axis, "row": s_, "input": i, "count": rc[ndesc + i], "mean": rm[ndesc + i],
                                                   "table": "mean", "zone": sim.env.zone})
                    return
        if any(float(r[ndesc]) == 0 for r in rows):
            sim.stats["probe:cli_tables_with_empty_slice"] += 1

    def expected_axis(self, sim, data, axis):
        """(expected axis values, function case -> slice value) from the model and the dataset's public dims."""
        times = [int(t) for t in data.times]
        if axis == "Time":
            return times, lambda c: self.u["times"][c[0]]
        if axis in MC.BUCKET:
            f = MC.BUCKET[axis]
            return sorted(set(f(t) for t in times)), lambda c: f(self.u["times"][c[0]])
        if axis == "Leadtime":
            return sorted(set(float(l) for l in data.leadtimes)), lambda c: self.u["leadtimes"][c[1]]
        if axis == "Leadtimeday":
            return sorted(set(MC.leadtimeday(float(l)) for l in data.leadtimes)), \
                lambda c: MC.leadtimeday(self.u["leadtimes"][c[1]])
        if axis in LOC_AXES:
            key = LOC_AXES[axis]
            byid = {l["id"]: l for l in self.u["locations"]}
            vals = [byid[int(loc.id)][key] for loc in data.locations]
            return vals, None
        return [0], lambda c: 0

    def request(self, sim, step, fields, inp, axis, index, rec):
        op = {"op": "req", "fields": fields, "single": False, "input": inp, "axis": axis, "index": index}
        sub = {"i": step, "op": op}
        sim.step_req(step, op, sub)
        rec.setdefault("sub", []).append({"axis": axis, "index": index, "live": sub.get("live")})
        return sim.records[-1]

    def sweep(self, sim, step, op, rec):
        data = sim.datasets[0]
        axis = op["axis"]
        fields = op["fields"]
        inp = op["input"]
        v = __import__("verif")
        try:
            with Quiet():
                vals = list(np.asarray(data.get_axis_values(mk_axis(axis))).tolist())
                size = int(data.get_axis_size(mk_axis(axis)))
        except (SystemExit, Exception) as e:
            sim.violate(step, "axis_values", {"axis": axis, "error": classify(e), "zone": sim.env.zone})
            return
        exp, case_value = self.expected_axis(sim, data, axis)
        rec["axis_values"] = vals
        if len(vals) != len(exp) or size != len(exp) or any(not _same(a, b) for a, b in zip(vals, exp)):
            sim.violate(step, "axis_values", {"axis": axis, "got": vals[:8], "expected": exp[:8], "zone": sim.env.zone})
            return
        sim.stats["probe:sweeps"] += 1
        pooled = self.request(sim, step, fields, inp, "No", 0, rec)
        if sim.violation is not None:
            return
        if pooled["status"] != "ok":
            return
        P = self.dec.decode(sim, pooled)
        jump = op.get("jump")
        slices = []
        for s in range(size):
            if jump and jump["after"] % max(size, 1) == s:
                sim.apply_env(jump["env"])
                sim.stats["probe:jump_inside_sweep"] += 1
            r = self.request(sim, step, fields, inp, axis, s, rec)
            if sim.violation is not None:
                return
            if r["status"] != "ok":
                sim.violate(step, "slice_failed", {"axis": axis, "slice": s, "status": r["status"], "zone": sim.env.zone})
                return
            C = self.dec.decode(sim, r)
            slices.append((r, C))
        if P is None or any(C is None for _, C in slices):
            sim.stats["undecodable_sweep"] += 1
            return
        sim.stats["probe:sweeps_decoded"] += 1
        if size > 1:
            sim.stats["probe:multi_slice_sweeps"] += 1
        union = set()
        total = 0
        for s, (r, C) in enumerate(slices):
            if union & C:
                sim.violate(step, "partition", {"sub": "overlap", "axis": axis, "slice": s, "cases": sorted(union & C)[:4],
                                                "zone": sim.env.zone})
                return
            union |= C
            total += len(C)
            for c in sorted(C):
                if axis in LOC_AXES:
                    loc_id = self.u["locations"][c[2]]["id"]
                    if int(data.locations[s].id) != loc_id:
                        sim.violate(step, "wrong_bucket", {"axis": axis, "slice": s, "case": list(c), "zone": sim.env.zone})
                        return
                elif case_value is not None:
                    if not _same(case_value(c), exp[s]):
                        sim.violate(step, "wrong_bucket", {"axis": axis, "slice": s, "case": list(c),
                                                           "case_value": case_value(c), "slice_value": exp[s],
                                                           "zone": sim.env.zone})
                        return
        if union != P or total != len(P):
            sim.violate(step, "partition", {"sub": "union", "axis": axis, "missing": sorted(P - union)[:4],
                                            "extra": sorted(union - P)[:4], "counts": [total, len(P)], "zone": sim.env.zone})
            return
        # count-weighted mean of slice scores equals the pooled score (verif's own metric loop)
        if [f[0] for f in fields] == ["Obs", "Fcst"] and axis not in ("Obs", "Fcst", "Threshold"):
            try:
                with Quiet():
                    import verif.metric
                    for M in (verif.metric.Mae, verif.metric.Bias):
                        m = M()
                        sl = np.asarray(m.compute(data, inp, mk_axis(axis), None), float)
                        po = float(np.asarray(m.compute(data, inp, mk_axis("No"), None), float)[0])
                        n = np.array([len(C) for _, C in slices], float)
                        if len(sl) != len(n):
                            sim.violate(step, "weighted_mean", {"sub": "length", "axis": axis, "zone": sim.env.zone})
                            return
                        ok = n > 0
                        if ok.any() and len(P) > 0:
                            if np.isnan(sl[ok]).any() or not np.isnan(sl[~ok]).all():
                                sim.violate(step, "weighted_mean", {"sub": "nan_pattern", "axis": axis, "scores": sl.tolist(),
                                                                    "counts": n.tolist(), "zone": sim.env.zone})
                                return
                            wm = float(np.sum(sl[ok] * n[ok]) / np.sum(n[ok]))
                            if abs(wm - po) > 1e-9 * max(1.0, abs(po)):
                                sim.violate(step, "weighted_mean", {"sub": "value", "axis": axis, "pooled": po, "weighted": wm,
                                                                    "metric": M.__name__, "zone": sim.env.zone})
                                return
                sim.stats["probe:weighted_mean_checks"] += 1
            except (SystemExit, Exception) as e:
                sim.violate(step, "weighted_mean", {"sub": "error", "error": classify(e), "axis": axis, "zone": sim.env.zone})

    def labels(self, sim, step, op, rec):
        data = sim.datasets[0]
        axis = op["axis"]
        try:
            with Quiet():
                desc = data.get_axis_descriptions(mk_axis(axis))
        except (SystemExit, Exception) as e:
            sim.violate(step, "labels", {"axis": axis, "error": classify(e), "zone": sim.env.zone})
            return
        sim.stats["probe:label_checks"] += 1
        if axis in LOC_AXES:
            byid = {l["id"]: l for l in self.u["locations"]}
            exp = {"id": [], "lat": [], "lon": [], "elev": []}
            for loc in data.locations:
                l = byid[int(loc.id)]
                for k in exp:
                    exp[k].append(l[k])
            got = {k: [float(x) for x in desc.get(k, [])] for k in exp}
            exp = {k: [float(x) for x in vv] for k, vv in exp.items()}
            if got != exp:
                sim.violate(step, "labels", {"axis": axis, "got": got, "expected": exp, "zone": sim.env.zone})
            return
        if axis in ("Time", "Year", "Month", "Week", "Day"):
            vals, _ = self.expected_axis(sim, data, axis)
            exp = [MC.label(axis, t) for t in vals]
            got = list(desc.get(axis, []))
            rec["labels"] = got[:6]
            if got != exp:
                sim.violate(step, "labels", {"axis": axis, "got": got[:6], "expected": exp[:6], "zone": sim.env.zone})

    def buckets(self, sim, step, op, rec):
        self._buckets(sim, step, op, rec, op["instants"])
        if sim.violation is None and op.get("instants_b"):
            # same length, first and last element, other interior; then the same array object changed in place
            sim.stats["probe:bucket_collision_arrays"] += 1
            self._buckets(sim, step, op, rec, op["instants_b"])
            if sim.violation is None:
                arr = np.array(op["instants"], int)
                self._buckets(sim, step, op, rec, arr, quiet=True)
                if sim.violation is None:
                    arr[1:-1] = np.array(op["instants_b"], int)[1:-1]
                    self._buckets(sim, step, op, rec, arr, quiet=True)

    def _buckets(self, sim, step, op, rec, instants, quiet=False):
        import verif.axis
        times = instants if isinstance(instants, np.ndarray) else np.array(instants, int)
        for name, f in MC.BUCKET.items():
            try:
                got = np.asarray(getattr(verif.axis, name)().compute_from_times(times)).tolist()
            except Exception as e:
                sim.violate(step, "bucket_function", {"axis": name, "error": classify(e), "zone": sim.env.zone})
                return
            exp = [f(int(t)) for t in times]
            for t, g, e in zip(times.tolist(), got, exp):
                if not _same(g, e):
                    sim.violate(step, "bucket_function", {"axis": name, "instant": t, "got": g, "expected": e,
                                                          "zone": sim.env.zone})
                    return
        lts = op.get("leadtimes", [])
        if lts and not quiet:
            got = np.asarray(verif.axis.Leadtimeday().compute_from_leadtimes(np.array(lts, float))).tolist()
            exp = [MC.leadtimeday(h) for h in lts]
            if got != exp:
                sim.violate(step, "bucket_function", {"axis": "Leadtimeday", "got": got, "expected": exp, "zone": sim.env.zone})
                return
        if not quiet:
            sim.stats["probe:bucket_instants"] += len(times)

    def conv(self, sim, step, op, rec):
        import verif.util as U
        start, n = op["start"], op["n"]
        bad = None
        e0 = sim.env.epoch_days      # date numbers count from matplotlib's date epoch (1970-01-01 unless changed)
        try:
            for days in range(DAY0 + start, min(DAY0 + start + n, DAYN + 1)):
                date = MC.date_int(days)
                t0 = days * 86400
                if U.date_to_unixtime(date) != t0:
                    bad = ("date_to_unixtime", date, U.date_to_unixtime(date), t0)
                    break
                if U.unixtime_to_date(t0) != date or U.unixtime_to_date(t0 + 86399) != date:
                    bad = ("unixtime_to_date", t0, U.unixtime_to_date(t0), date)
                    break
                dn = U.date_to_datenum(date)
                if dn != float(days - e0):
                    bad = ("date_to_datenum", date, dn, days - e0)
                    break
                un = U.unixtime_to_datenum(t0 + 43200)
                if abs(un - (days - e0 + 0.5)) > 1e-9:
                    bad = ("unixtime_to_datenum", t0 + 43200, un, days - e0 + 0.5)
                    break
                if U.datenum_to_date(dn) != date or U.datenum_to_date(days - e0 + 0.75) != date:
                    bad = ("datenum_to_date", dn, U.datenum_to_date(dn), date)
                    break
                if U.unixtime_to_date(U.date_to_unixtime(date)) != date or U.datenum_to_date(U.unixtime_to_datenum(t0)) != date:
                    bad = ("roundtrip", date, None, None)
                    break
                for k in (1, -1, 31):
                    if DAY0 <= days + k <= DAYN and U.get_date(date, k) != MC.date_int(days + k):
                        bad = ("get_date", date, U.get_date(date, k), MC.date_int(days + k))
                        break
                if bad:
                    break
        except Exception as e:
            bad = ("exception", classify(e), None, None)
        sim.stats["probe:conv_days"] += min(n, DAYN + 1 - DAY0 - start)
        if bad:
            sim.violate(step, "conversion", {"function": bad[0], "arg": bad[1], "got": bad[2], "expected": bad[3],
                                             "zone": sim.env.zone})


def _same(a, b):
    try:
        return float(a) == float(b)
    except (TypeError, ValueError):
        return a == b


def signature(spec, violation):
    k = violation["kind"]
    d = violation.get("detail", {})
    if k in ("axis_values", "wrong_bucket", "bucket_function", "labels", "env_dependent_result", "cli_rows"):
        return "%s axis=%s" % (k, d.get("axis"))
    if k == "partition":
        return "partition sub=%s axis=%s" % (d.get("sub"), d.get("axis"))
    if k == "weighted_mean":
        return "weighted_mean sub=%s" % d.get("sub")
    if k == "conversion":
        return "conversion function=%s" % d.get("function")
    return k
