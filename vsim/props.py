"""Per-property wiring: how a spec is generated, executed and judged.

execute(spec, workdir) is a pure function of the spec and of /repo's working tree.
"""
import hashlib
import json
import shutil

from . import gen_data
from . import engine_data
from . import oracle_c18
from . import oracle_c01
from . import oracle_c11
from . import gen_cli
from . import engine_cli
from . import seams
from . import model_calendar as MC
from . import prng
from . import world as W


def _ilv_hash(spec):
    """Interleaving signature: sequence of (client, request class / op kind)."""
    seq = []
    for op in spec.get("pre_ops", []) + spec.get("mid_ops", []):
        seq.append(("pre", op["op"], op.get("zone")))
    for op in spec["ops"]:
        if op["op"] in ("sweep", "labels"):
            seq.append((op["op"], op["axis"], op.get("input"), bool(op.get("jump"))))
        elif op["op"] == "tz":
            seq.append(("tz", op["zone"]))
        elif op["op"] == "req":
            seq.append((op.get("client"), "+".join(f[0] for f in op["fields"]), op["axis"], op["input"], op.get("ds", 0)))
        else:
            seq.append((op["op"],))
    return hashlib.sha256(repr(seq).encode()).hexdigest()[:12]


def _tenants(spec, workdir, make_oracles, want_ref):
    """DataSims for the primary spec and for every other tenant of the same simulated process."""
    sims = [engine_data.DataSim(spec, workdir + "/t0", oracles=make_oracles(), want_ref=want_ref,
                                record_arrays=spec.get("record_arrays", False))]
    for k, other in enumerate(spec.get("others") or [], 1):
        o = dict(other)
        for key in ("prop", "seed", "run", "pinned", "pin_seed", "ref_utc"):
            o.setdefault(key, spec.get(key))
        sims.append(engine_data.DataSim(o, workdir + "/t%d" % k, oracles=make_oracles(), want_ref=want_ref))
    return sims


def _schedule(rng, n_a, n_b):
    sched = [0] * n_a + [1] * n_b
    rng.shuffle(sched)
    return sched


# ---------------------------------------------------------------------------------- C18 (engine A)
def c18_marathon(seed, run, tier):
    """One long history on one dataset object: many hundreds of distinct requests, then early ones again
    (bounded caches, eviction, counters - anything that only shows after a long time)."""
    prof = dict(gen_data.PROFILE_C18, n_inputs=(2, 3), n_times=(4, 6), n_leadtimes=(3, 4), n_locations=(3, 4), p_big_dims=0.0,
                p_subset=0.0, p_remap=0.0, p_dim_agg=0.0, p_keep_dim=1.0, faults=[], p_pit=0.0, p_ens=0.6, p_thr=0.7, p_q=0.5)
    spec = gen_data.gen_spec("C18", seed, run, tier, prof)
    rng = prng.stream(seed, "C18", run, "marathon")
    info = gen_data.world_info(spec["world"])
    ps = W.parties(spec["world"])
    common = set.intersection(*[set(p["fields"]) for p in ps])
    min_members = min(sum(1 for f in p["fields"] if W.field_kind(f)[0] == "ens") for p in ps)
    # requests that succeed on every input (a failed request is not cached, and a long history of errors
    # exercises nothing): fields every party can deliver
    allowed = []
    if any("obs" in p["fields"] for p in ps):
        allowed.append(["Obs"])
    if "fcst" in common:
        allowed.append(["Fcst"])
    allowed += [["Ensemble", m] for m in range(min_members)]
    if min_members >= 1:
        allowed += [["Threshold", t] for t in W.THRESHOLDS] + [["Quantile", q] for q in W.QUANTILES]
    allowed += [["Other", o] for o in info["others"] if o in common]
    if len(allowed) < 2:
        allowed = [["Obs"], ["Fcst"]]
    u = spec["world"]["universe"]
    sizes = {"Time": len(u["times"]), "Leadtime": len(u["leadtimes"]), "Location": len(u["locations"]),
             "Lat": len(u["locations"]), "Lon": len(u["locations"]), "Elev": len(u["locations"])}
    n = rng.randint(620, 760) if tier == "quick" else rng.randint(700, 1600)
    seen, ops = set(), []
    guard = 0
    while len(ops) < n and guard < 30 * n:
        guard += 1
        fields = rng.sample(allowed, rng.randint(1, min(3, len(allowed))))
        axis = rng.choice(["Time", "Leadtime", "Location", "Lat", "Lon", "Elev", "Time", "Leadtime", "Location", "No", "All",
                           "Year", "Month", "Week", "Day", "Timeofday", "Dayofyear", "Dayofmonth", "Monthofyear", "Leadtimeday"])
        if axis in sizes:
            index = rng.randrange(sizes[axis])
        elif axis == "All":
            index = None
        elif axis == "No":
            index = 0
        else:
            index = {"wrap": rng.randrange(0, 4)}
        op = {"op": "req", "fields": fields, "single": len(fields) == 1 and rng.random() < 0.3,
              "input": rng.randrange(info["n_inputs"]), "axis": axis, "index": index, "client": 0}
        key = json.dumps([op["fields"], op["single"], op["input"], op["axis"], op["index"]])
        if key in seen:
            continue
        seen.add(key)
        ops.append(op)
    early = [dict(o) for o in ops[:60]]
    rng.shuffle(early)
    spec["ops"] = ops + early[:30]
    spec["pre_ops"] = []
    spec["pinned"] = True
    spec["kind"] = "marathon"
    return spec


MENU_SIZE = 12
MENU_SEQS = MENU_SIZE + MENU_SIZE ** 2 + MENU_SIZE ** 3


def menu_requests(world):
    """A fixed menu of twelve request shapes (single and multiple fields, whole-array / pooled / sliced, every
    input, permuted field lists, one request that must fail), instantiated for the world at hand."""
    info = gen_data.world_info(world)
    n = info["n_inputs"]
    ps = W.parties(world)
    common = set.intersection(*[set(p["fields"]) for p in ps])
    min_members = min(sum(1 for f in p["fields"] if W.field_kind(f)[0] == "ens") for p in ps)
    if min_members >= 1:
        extra = ["Threshold", (info["thresholds"] or W.THRESHOLDS)[0]]
    elif [o for o in info["others"] if o in common]:
        extra = ["Other", [o for o in info["others"] if o in common][0]]
    elif "pit" in common:
        extra = ["Pit"]
    else:
        extra = ["Fcst"]
    last = n - 1

    def rq(fields, inp, axis, index, single=False):
        return {"op": "req", "fields": fields, "single": single, "input": inp, "axis": axis, "index": index, "client": 0}
    return [
        rq([["Obs"], ["Fcst"]], 0, "All", None),
        rq([["Obs"], ["Fcst"]], last, "All", None),
        rq([["Obs"]], 0, "All", None, True),
        rq([["Fcst"]], last, "No", 0, True),
        rq([["Obs"], ["Fcst"]], 0, "Time", {"wrap": 0}),
        rq([["Obs"], ["Fcst"]], last, "Leadtime", {"wrap": 1}),
        rq([["Fcst"]], 0, "Location", {"wrap": 1}),
        rq([["Obs"], extra], 0, "All", None),
        rq([["Obs"], ["Other", "nosuchfield"]], last, "No", 0),
        rq([["Obs"], extra], last, "Month", {"wrap": 0}),
        rq([["Fcst"], ["Obs"]], 0, "No", 0),
        rq([["Obs"]], last, "Time", {"wrap": 1}),
    ]


def menu_sequence(seed, k):
    """The k-th element of a permutation (a function of VERIF_SEED alone) of all menu sequences of length 1-3."""
    import random as _random
    order = list(range(MENU_SEQS))
    _random.Random(prng.derive_int(seed, "C18", "menu-permutation")).shuffle(order)
    j = order[k % MENU_SEQS]
    if j < MENU_SIZE:
        return [j]
    j -= MENU_SIZE
    if j < MENU_SIZE ** 2:
        return [j // MENU_SIZE, j % MENU_SIZE]
    j -= MENU_SIZE ** 2
    return [j // MENU_SIZE ** 2, (j // MENU_SIZE) % MENU_SIZE, j % MENU_SIZE]


def c18_menu(seed, run, tier, k):
    """Stratified part of the search: the quantifier of C18 speaks of all histories up to length 3 over a menu
    of requests.  Runs of this kind walk through a seeded permutation of the 1 884 menu sequences (each on its
    own generated world), so that coverage of the short histories does not depend on luck; after the sequence
    every request of it is issued once more in reverse order (results must not have changed)."""
    prof = dict(gen_data.PROFILE_C18, n_inputs=(2, 3), faults=[], p_aux=0.0)
    spec = gen_data.gen_spec("C18", seed, run, tier, prof)
    menu = menu_requests(spec["world"])
    seq = menu_sequence(seed, k)
    ops = [dict(menu[j]) for j in seq]
    ops += [dict(menu[j]) for j in reversed(seq)]
    spec["ops"] = ops
    spec["pre_ops"] = []
    spec["pinned"] = True
    spec["kind"] = "menu"
    spec["menu_seq"] = seq
    return spec


def c18_interrupt_sweep(seed, run, tier, prop="C18", base_profile=None):
    """Crash-point sweep: one cold request is interrupted (KeyboardInterrupt / MemoryError raised at the n-th
    line event inside verif's own code) at positions stratified over its whole execution, each time on a
    freshly built dataset object on the same inputs, and followed by the sibling requests for every input.
    Whatever the interrupted request left in the caches, the later answers must be those of a fresh dataset."""
    prof = dict(base_profile or gen_data.PROFILE_C18, n_inputs=(2, 4), faults=[], p_aux=0.0, p_interrupt=0.0)
    spec = gen_data.gen_spec(prop, seed, run, tier, prof)
    rng = prng.stream(seed, prop, run, "interrupt-sweep")
    info = gen_data.world_info(spec["world"])
    script = []
    for _ in range(6):
        script = [op for op in gen_data.client_script(rng, info, prof, rng.choice(
            ["metric_loop", "diagram", "probabilistic", "from_field", "auto_threshold"])) if op["op"] == "req"]
        if script:
            break
    if not script:
        return spec
    first = script[0]
    m = 14 if tier == "quick" else 36
    span = 120 + 90 * info["n_inputs"]
    ops = []
    for j in range(m):
        nth = 1 + int((j + rng.random()) * span / m)
        ops.append({"op": "rebuild"})
        ops.append({"op": "interrupt", "nth": nth, "exc": rng.choice(["KeyboardInterrupt", "KeyboardInterrupt", "MemoryError"])})
        ops.append(dict(first, ds=j + 1))
        for i in range(info["n_inputs"]):
            ops.append(dict(first, input=i, ds=j + 1))
        f = rng.choice(first["fields"])
        ops.append({"op": "req", "fields": [f], "single": True, "input": rng.randrange(info["n_inputs"]), "axis": "All",
                    "index": None, "ds": j + 1, "client": 0})
    spec["ops"] = ops
    spec["pre_ops"] = []
    spec["pinned"] = True
    spec["kind"] = "interrupt_sweep"
    return spec


def c18_gen(seed, run, tier):
    if run % (700 if tier == "quick" else 400) == 107:
        return c18_marathon(seed, run, tier)
    if run % 10 == 3:
        return c18_menu(seed, run, tier, run // 10)
    if run % 20 == 7:
        return c18_interrupt_sweep(seed, run, tier)
    spec = gen_data.gen_spec("C18", seed, run, tier, gen_data.PROFILE_C18)
    trng = prng.stream(seed, "C18", run, "tenant")
    if trng.random() < 0.2:
        # a second, unrelated dataset served by the same process, its requests interleaved with the first's
        prof = dict(gen_data.PROFILE_C18, faults=["rng"], p_fault_kind=0.2)
        other = gen_data.gen_spec("C18", seed, "%s-tenant1" % run, tier, prof)
        ops_b = other["ops"][:12]
        if trng.random() < 0.6:
            # the same analysis run on the other dataset: tenant 1 mirrors tenant 0's request shapes
            nb = len(other["world"]["inputs"])
            ops_b = [dict(op, input=op["input"] % nb, ds=0) for op in spec["ops"] if op["op"] == "req"][:14] or ops_b
        spec["others"] = [{"world": other["world"], "config": other["config"], "ops": ops_b, "pre_ops": []}]
        spec["schedule"] = _schedule(trng, len(spec["ops"]), len(spec["others"][0]["ops"]))
    return spec


def c18_execute(spec, workdir):
    sims = _tenants(spec, workdir, lambda: [oracle_c18.C18Oracle()], True)
    res = engine_data.run_multi(sims, spec.get("schedule"))
    shutil.rmtree(workdir, ignore_errors=True)
    res["mode"] = ("pinned" if spec.get("pinned", True) else "unpinned") + ("+tenant" if spec.get("others") else "")
    if spec.get("others"):
        res["stats"]["probe:multi_tenant_runs"] = 1
    if spec.get("kind") == "marathon":
        res["stats"]["probe:marathon_runs"] = 1
        res["mode"] = "marathon"
    if spec.get("kind") == "menu":
        res["stats"]["probe:menu_runs"] = 1
        res["mode"] = "menu"
    if res["violation"] is not None and not spec.get("pinned", True):
        # classification (does the violation survive with the global RNG pinned?) needs a second
        # execution from pristine process state: requested from the runner, see c18_classify
        res["rerun_pinned"] = True
    if res["violation"] is not None:
        vspec = spec
        if res["violation"].get("tenant"):
            vspec = dict(spec, world=spec["others"][res["violation"]["tenant"] - 1]["world"])
        res["violation"]["signature"] = oracle_c18.signature(vspec, res["violation"])
    res["ilv"] = _ilv_hash(spec)
    reqs = [op for op in spec["ops"] if op["op"] == "req"][:3]
    res["sets"] = {"request_prefixes_len3": [hashlib.sha256(repr([("+".join(f[0] for f in op["fields"]), bool(op.get("single")),
                                                                 op["axis"], op["input"]) for op in reqs]).encode()).hexdigest()[:12]]}
    if spec.get("kind") == "menu":
        res["sets"]["menu_sequences_len1to3_of_%d" % MENU_SEQS] = ["-".join(map(str, spec["menu_seq"]))]
    st = res["stats"]
    # non-trivial: at least two requests reached the data layer and missed the request cache
    res["nontrivial"] = (st.get("req_ok", 0) + st.get("req_exit", 0) + st.get("req_exc", 0)
                         - st.get("probe:request_cache_hit", 0)) >= 2
    return res


# ---------------------------------------------------------------------------------- C01 (engine A)
PROFILE_C01 = {
    "n_inputs": (2, 4), "p_clim": 0.35, "p_has_obs": 0.7, "p_has_fcst": 1.0, "p_party_has": 0.95,
    "miss_rates": [0.05, 0.15, 0.3, 0.4], "p_keep_dim": 0.8, "n_times": (1, 5), "n_leadtimes": (1, 4),
    "n_locations": (1, 4), "p_subset": 0.03, "p_remap": 0.04, "p_dim_agg": 0.06, "p_obs_range": 0.25,
    "client_kinds": ["metric_loop", "metric_loop", "metric_loop", "diagram", "diagram", "auto_threshold",
                     "probabilistic", "from_field", "random"],
    "p_fault_kind": 0.3, "p_pinned": 1.0, "p_axis_all": 0.3, "p_inf": 0.08,
    "p_env_pre": 0.55,     # time-zone / clock jumps land before the files are read more often (after S98)
}


def c01_cli_gen(seed, run, tier):
    """Isolation at the command line: the same commands on a world and on its twin (one file's forecast
    values changed); the other files' columns of the csv/text tables must be identical."""
    parts = (seed, "C01cli", run)
    prof = dict(gen_cli.PROFILE_CLI, n_inputs=(2, 4), p_no_id=0.0, p_x0=0.0)
    world = W.generate(prng.stream(*parts, "world"), prof)
    rng = prng.stream(*parts, "ops")
    files = [p["name"] for p in world["inputs"]]
    # forecasts in the range of the observations and thresholds (the tag scheme keeps them ~1000 apart,
    # which would make every contingency table trivial)
    for k, party in enumerate(W.parties(world)):
        g = party["fields"].get("fcst")
        if g is not None:
            for plane in g:
                for row in plane:
                    for j, v in enumerate(row):
                        if v is not None and v == v and abs(v) != float("inf"):
                            row[j] = float((int(v) * 7 + k * 13) % 300)
    cmds = []
    for _ in range(rng.randint(2, 5)):
        cmd = gen_cli.gen_command(rng, world, allow_f=False)
        # (-obs declares another field to be the observations: a file lacking it is then legitimately scored
        #  against the victim's values of that field, so such commands are not part of this relation)
        groups = [g for g in cmd["groups"] if not g[0].startswith("--list") and g[0] not in ("-hist", "-sort", "-leg", "-type", "-f", "-obs")]
        if not any(g[0] == "-m" for g in groups):
            groups.append(["-m", "mae"])
        if rng.random() < 0.35:
            # several thresholds averaged over (threshold metrics with an explicit -r)
            groups = [g for g in groups if g[0] not in ("-m", "-r", "-q", "-b")]
            groups += [["-m", rng.choice(["far", "ets", "threat", "hit", "pc", "biasfreq"])],
                       ["-r", ",".join(str(v) for v in sorted(rng.sample(range(1, 260), rng.randint(2, 4))))]]
            if not any(g[0] == "-x" for g in groups):
                groups.append(["-x", rng.choice(["leadtime", "time", "location", "no"])])
        groups.append(["-type", rng.choice(["csv", "csv", "text"])])
        cmds.append(files + [t for g in groups for t in g])
    return {"prop": "C01", "engine": "B", "kind": "cli_twin", "seed": seed, "run": run, "tier": tier, "world": world,
            "twin": rng.randrange(len(files)), "cases": [{"kind": "cmd", "argv": a} for a in cmds], "pinned": True, "pin_seed": 777}


BOTH_METRICS = ["mae", "bias", "rmse", "corr", "stderror", "cmae", "dmb", "mbias", "ef", "rmsf", "nsec", "rankcorr",
                "derror", "kge", "leps"]


def _rescale_fcst(world):
    # forecasts in the range of the observations and thresholds (the tag scheme keeps them ~1000 apart,
    # which would make every contingency table trivial)
    for k, party in enumerate(W.parties(world)):
        g = party["fields"].get("fcst")
        if g is not None:
            for plane in g:
                for row in plane:
                    for j, v in enumerate(row):
                        if v is not None and v == v and abs(v) != float("inf"):
                            row[j] = float((int(v) * 7 + k * 13) % 300)


def c01_knock_gen(seed, run, tier):
    """Case deletion at the command line: world W1 = one file lacks one quantity the score uses at a few
    cases; world W2 = those cases are missing from every file altogether.  C01 says such a case contributes
    to no file's score, so the tables of the same commands must be identical - every column."""
    parts = (seed, "C01knock", run)
    prof = dict(gen_cli.PROFILE_CLI, n_inputs=(2, 4), p_no_id=0.0, p_x0=0.0, p_q=0.6, p_thr=0.5, p_has_obs=0.8, p_inf=0.0)
    world = W.generate(prng.stream(*parts, "world"), prof)
    rng = prng.stream(*parts, "ops")
    _rescale_fcst(world)
    files = [p["name"] for p in world["inputs"]]
    common = set.intersection(*[set(p["fields"]) for p in world["inputs"]])
    qs = sorted(W.field_kind(n)[1] for n in common if W.field_kind(n)[0] == "q")
    ts = sorted(W.field_kind(n)[1] for n in common if W.field_kind(n)[0] == "thr")
    fams = ["det", "det", "thr"]
    if len(qs) >= 2 and "fcst" in common:
        fams += ["ssr", "ssr", "ssr"]
    if qs:
        fams += ["qs"]
    if ts:
        fams += ["bs"]
    fam = rng.choice(fams)
    cmds = []
    for _ in range(rng.randint(2, 4)):
        cmd = gen_cli.gen_command(rng, world, allow_f=False)
        groups = [g for g in cmd["groups"] if not g[0].startswith("--list") and g[0] not in (
            "-hist", "-sort", "-leg", "-type", "-f", "-obs", "-fcst", "-m", "-r", "-q", "-b", "-T", "-Tagg", "-Tx")]
        if fam == "det":
            groups.append(["-m", rng.choice(BOTH_METRICS)])
            uses = ["obs", "fcst"]
        elif fam == "thr":
            groups += [["-m", rng.choice(["far", "ets", "threat", "hit", "pc", "biasfreq"])],
                       ["-r", ",".join(str(v) for v in sorted(rng.sample(range(1, 260), rng.randint(1, 3))))]]
            uses = ["obs", "fcst"]
        elif fam == "ssr":
            a, b = sorted(rng.sample(qs, 2))
            m = rng.choice(["spreadskillratio", "spreadskillratio", "spread"])
            groups += [["-m", m], ["-q", "%s,%s" % (W._fmt_num(a), W._fmt_num(b))]]
            uses = ["q%g" % a, "q%g" % b] + (["obs", "fcst"] if m == "spreadskillratio" else [])
        elif fam == "qs":
            q = rng.choice(qs)
            groups += [["-m", rng.choice(["quantilescore", "quantilecoverage"])], ["-q", W._fmt_num(q)]]
            uses = ["obs", "q%g" % q]
        else:
            t = rng.choice(ts)
            groups += [["-m", rng.choice(["bs", "bss", "bsrel", "bsres"])], ["-r", W._fmt_num(t)]]
            uses = ["obs", "p%g" % t]
        groups.append(["-type", rng.choice(["csv", "csv", "text"])])
        cmds.append({"argv": files + [t_ for g in groups for t_ in g], "uses": uses})
    shared = set(cmds[0]["uses"])
    for c in cmds:
        shared &= set(c["uses"])
    victim = rng.randrange(len(files))
    cand = sorted(f for f in shared if f in world["inputs"][victim]["fields"])
    field = rng.choice(cand) if cand else None
    cases = []
    if field is not None:
        party = world["inputs"][victim]
        g = party["fields"][field]
        have = [(party["times"][i], party["leadtimes"][j], party["locations"][s_])
                for i in range(len(g)) for j in range(len(g[0])) for s_ in range(len(g[0][0])) if g[i][j][s_] is not None]
        if len(have) >= 3:
            cases = rng.sample(have, rng.randint(1, max(1, len(have) // 4)))
    return {"prop": "C01", "engine": "B", "kind": "cli_knock", "seed": seed, "run": run, "tier": tier, "world": world,
            "twin": victim, "field": field, "knock": [list(c) for c in cases],
            "cases": [{"kind": "cmd", "argv": c["argv"]} for c in cmds], "pinned": True, "pin_seed": 777}


def _table(out, n_files):
    """Parse a csv/text table printed by verif: list of rows of cells, warnings removed."""
    rows = []
    for line in out.splitlines():
        if not line.strip() or line.startswith("\x1b"):
            continue
        cells = [c.strip() for c in (line.split("|") if "|" in line else line.split(","))]
        if "|" in line and cells and cells[-1] == "":
            cells = cells[:-1]
        rows.append(cells)
    return rows


def c01_cli_execute(spec, workdir):
    import os
    victim = spec["twin"]
    if spec.get("kind") == "cli_knock":
        cases = [tuple(c) for c in spec.get("knock") or []]
        wa = W.knockout(spec["world"], cases, victim, spec.get("field"))
        wb = W.knockout(spec["world"], cases)
        return _c01_cli_compare(spec, workdir, wa, wb, None, "cli_case_deletion")
    cfg = {}
    w2 = W.twin(spec["world"], victim)
    # the victim's forecasts stay in the range of the thresholds but take other values
    import copy as _copy
    w2["inputs"][victim]["fields"]["fcst"] = _copy.deepcopy(spec["world"]["inputs"][victim]["fields"].get("fcst"))
    g = w2["inputs"][victim]["fields"]["fcst"]
    if g is None:
        del w2["inputs"][victim]["fields"]["fcst"]
    else:
        for plane in g:
            for row in plane:
                for j, v in enumerate(row):
                    if v is not None and v == v and abs(v) != float("inf"):
                        row[j] = float((int(v) * 3 + 50) % 300)
    return _c01_cli_compare(spec, workdir, spec["world"], w2, victim, "cli_isolation")


def _c01_cli_compare(spec, workdir, wa, wb, victim, vkind):
    """Run the session's commands on world `wa` and on world `wb`; the tables must agree in every column
    (except the victim's, when one is given)."""
    import os
    n_files = len(spec["world"]["inputs"])
    outs = []
    stats = {}
    for tag, world in (("a", wa), ("b", wb)):
        sim = engine_cli.CliSim(dict(spec, world=world, cases=[]), os.path.join(workdir, tag))
        sim.cases = []
        collected = []

        def runner(step, case, _sim=sim, _c=collected):
            _c.append(_sim.run_cmd(case["argv"]))
        sim.case_cmd = runner
        sim.cases = spec["cases"]
        res = sim.run()
        outs.append(collected)
        for k, v in res["stats"].items():
            stats[k] = stats.get(k, 0) + v
        digest = res["digest"]
    shutil.rmtree(workdir, ignore_errors=True)
    violation = None
    compared = 0
    for step, (case, oa, ob) in enumerate(zip(spec["cases"], outs[0], outs[1])):
        if vkind == "cli_case_deletion" and oa["status"] != ob["status"] and (oa["ok"] or ob["ok"]):
            violation = {"step": step, "kind": vkind, "detail": {"sub": "status", "argv": case["argv"], "victim": spec["twin"],
                                                               "field": spec.get("field"), "a": oa["status"], "b": ob["status"]}}
            break
        if not (oa["ok"] and ob["ok"]) or "-obs" in case["argv"]:
            continue
        ta, tb = _table(oa["stdout"], n_files), _table(ob["stdout"], n_files)
        if len(ta) != len(tb) or any(len(x) != len(y) for x, y in zip(ta, tb)):
            violation = {"step": step, "kind": vkind, "detail": {"sub": "shape", "argv": case["argv"], "victim": victim,
                                                                           "a": oa["stdout"][:400], "b": ob["stdout"][:400]}}
            break
        files_in_cmd = [t for t in case["argv"] if t in [p["name"] for p in spec["world"]["inputs"]]]
        nf = len(files_in_cmd)
        bad = None
        for ra, rb in zip(ta, tb):
            if len(ra) < nf:
                continue
            for j in range(len(ra)):
                col_file = j - (len(ra) - nf)
                if victim is not None and col_file >= 0 and files_in_cmd[col_file] == spec["world"]["inputs"][victim]["name"]:
                    continue
                if ra[j] != rb[j]:
                    bad = (ra, rb, j)
                    break
            if bad:
                break
        compared += 1
        if bad:
            violation = {"step": step, "kind": vkind, "detail": {"sub": "value", "argv": case["argv"], "victim": spec["twin"],
                                                               "field": spec.get("field"), "knock": spec.get("knock"),
                                                               "row_a": bad[0], "row_b": bad[1], "column": bad[2]}}
            break
    stats["probe:cli_twin_tables_compared" if vkind == "cli_isolation" else "probe:cli_case_deletion_tables_compared"] = compared
    if violation is not None:
        violation["signature"] = "%s sub=%s metric=%s" % (vkind, violation["detail"]["sub"], engine_cli.metric_of(violation["detail"]["argv"]))
    h = hashlib.sha256(json.dumps([[o["status"], o["stdout"]] for col in outs for o in col]).encode()).hexdigest()[:20]
    return {"violation": violation, "digest": h, "stats": stats, "fired": {}, "states": [], "log": [], "steps": 2 * len(spec["cases"]),
            "mode": "cli-twin" if vkind == "cli_isolation" else "cli-case-deletion", "ilv": _cli_ilv(spec), "nontrivial": compared >= 1}


def c01_gen(seed, run, tier):
    if run % 10 == 9:
        return c01_cli_gen(seed, run, tier)
    if run % 10 == 4:
        return c01_knock_gen(seed, run, tier)
    if run % 20 == 7:
        # crash-point sweep (DESIGN 10.2): one cold request interrupted at positions stratified over its execution,
        # each on a fresh dataset object, followed by the sibling requests for every input - agreement and
        # membership must hold for whatever the interrupted request left in the caches
        spec = c18_interrupt_sweep(seed, run, tier, "C01", dict(PROFILE_C01, p_dim_agg=0.0))
        spec["twin"] = None
        return spec
    spec = gen_data.gen_spec("C01", seed, run, tier, PROFILE_C01)
    trng = prng.stream(seed, "C01", run, "twin")
    n = len(spec["world"]["inputs"])
    # single-input worlds with a climatology still have two parties; isolation needs >= 2 scored inputs
    if n >= 2 and (tier == "thorough" or trng.random() < 0.5):
        spec["twin"] = trng.randrange(n)
    else:
        spec["twin"] = None
    spec["pinned"] = True
    return spec


def c01_execute(spec, workdir):
    if spec.get("kind") in ("cli_twin", "cli_knock"):
        return c01_cli_execute(spec, workdir)
    oracle = oracle_c01.C01Oracle()
    sim = engine_data.DataSim(spec, workdir + "/a", oracles=[oracle], want_ref=False)
    res = sim.run()
    shutil.rmtree(workdir, ignore_errors=True)
    res["mode"] = "twin" if spec.get("twin") is not None else "single"
    st = res["stats"]
    if res["violation"] is None and spec.get("twin") is not None and not st.get("construct_failed"):
        cfg = spec.get("config", {})
        protect = []
        if cfg.get("obs_field"):
            nm = oracle_c01.role_name(cfg, ["Obs"])
            if isinstance(nm, tuple):
                protect += [n for p in W.parties(spec["world"]) for n in p["fields"]
                            if W.field_kind(n)[0] == nm[0] and abs(W.field_kind(n)[1] - nm[1]) < 1e-9]
            elif nm:
                protect.append(nm)
        victim = spec["twin"]
        w2 = W.twin(spec["world"], victim, protect=tuple(protect))
        sim2 = engine_data.DataSim(dict(spec, world=w2), workdir + "/b", oracles=[], want_ref=False)
        res2 = sim2.run()
        shutil.rmtree(workdir, ignore_errors=True)
        res["stats"]["probe:twin_runs"] = 1
        if not res2["stats"].get("construct_failed"):
            if len(sim.records) != len(sim2.records):
                res["violation"] = {"step": 0, "kind": "isolation", "detail": {"sub": "history_length"}}
            else:
                for ra, rb in zip(sim.records, sim2.records):
                    if ra["req"]["input"] == victim:
                        continue
                    res["stats"]["probe:twin_compared"] = res["stats"].get("probe:twin_compared", 0) + 1
                    if ra["status"] != rb["status"] or ra["dig"] != rb["dig"]:
                        res["violation"] = {"step": ra["step"], "kind": "isolation", "detail": {
                            "sub": "status" if ra["status"] != rb["status"] else "value", "victim": victim,
                            "request": engine_data.describe_req(ra["req"]),
                            "a": [ra["status"]] + ra["dig"], "b": [rb["status"]] + rb["dig"]}}
                        break
    if res["violation"] is not None:
        res["violation"]["signature"] = oracle_c01.signature(spec, res["violation"])
    res["ilv"] = _ilv_hash(spec)
    res["nontrivial"] = st.get("probe:sibling_pairs", 0) >= 1 and len(W.parties(spec["world"])) >= 2
    return res


# ---------------------------------------------------------------------------------- C11 (engine A + environment schedule)
PROFILE_C11 = {
    "n_inputs": (1, 2), "p_clim": 0.0, "time_profile": "calendar", "leadtime_profile": "calendar",
    "n_times": (2, 6), "n_leadtimes": (1, 4), "n_locations": (1, 3), "p_has_obs": 1.0, "p_has_fcst": 1.0,
    "miss_rates": [0.0, 0.05, 0.15], "p_keep_dim": 0.95, "p_pit": 0.0, "p_ens": 0.0, "p_thr": 0.0, "p_q": 0.0,
    "p_other": 0.0, "p_remap": 0.0, "p_dim_agg": 0.0, "p_obs_range": 0.0, "p_subset": 0.04,
    "p_whole_field_missing": 0.0, "p_slice_missing": 0.05,
}
C11_AXES = ["Time", "Year", "Month", "Week", "Day", "Timeofday", "Dayofyear", "Dayofmonth", "Monthofyear",
            "Leadtime", "Leadtimeday", "Location", "Lat", "Lon", "Elev", "No", "Threshold", "Obs", "Fcst"]
CONV_DAYS = 73414
_D0 = MC.days_from_civil(1900, 1, 1)
# blocks of days where calendar rules bite: 1900 (no leap day), 1970 epoch, 2000 (leap), 2038 (32 bit), 2100 (no leap day)
CONV_CRITICAL = [0, MC.days_from_civil(1969, 12, 1) - _D0, MC.days_from_civil(2000, 2, 1) - _D0,
                 MC.days_from_civil(2038, 1, 1) - _D0, MC.days_from_civil(2100, 2, 1) - _D0, MC.days_from_civil(2100, 10, 1) - _D0]


def _env_op(rng):
    r = rng.random()
    if r < 0.7:
        return {"op": "tz", "zone": rng.choice(seams.ZONES)}
    return {"op": "clock", "delta": rng.choice([1, -1, 3600, -3600, 86400, 86400 * 366, -86400 * 365 * 30,
                                                86400 * 365 * 80, 1800, -7200])}


def _instants(rng, n):
    out = []
    for _ in range(n):
        b = rng.choice(W._BOUNDARIES)
        t = b + rng.choice([-1, 0, 1, -3600, 3599, 3600, 86399, -86400, 43200, rng.randrange(-400 * 86400, 400 * 86400)])
        if 0 <= t <= 4133980799:
            out.append(int(t))
    return out or [0]


def c11_gen(seed, run, tier):
    parts = (seed, "C11", run)
    mrng = prng.stream(*parts, "mode")
    erng = prng.stream(*parts, "env")
    orng = prng.stream(*parts, "ops")
    every = 400 if tier == "quick" else 50
    world = W.generate(prng.stream(*parts, "world"), PROFILE_C11)
    config = gen_data.gen_config(prng.stream(*parts, "config"), world, PROFILE_C11)
    for k in ("leadtimes", "locations", "locations_x", "lat_range", "elev_range"):
        config.pop(k, None)
    spec = {"prop": "C11", "seed": seed, "run": run, "tier": tier, "world": world, "config": config, "pinned": True,
            "pin_seed": 4242, "ref_utc": True, "pre_ops": [], "mid_ops": [], "ops": []}
    if run % every == 0:
        # conversions for a block of calendar days (thorough: every day 1900-2100) under one zone
        zone = seams.ZONES[(run // every) % len(seams.ZONES)]
        spec["pre_ops"] = [{"op": "tz", "zone": zone}]
        if tier == "thorough":
            spec["ops"] = [{"op": "conv", "start": 0, "n": CONV_DAYS}]
        else:
            n = CONV_DAYS // 20
            spec["ops"] = [{"op": "conv", "start": mrng.randrange(0, CONV_DAYS - n), "n": n}] + \
                          [{"op": "conv", "start": c, "n": 120} for c in CONV_CRITICAL]
        spec["kind"] = "conv"
        if (run // every) % 2 == 1:
            spec["pre_ops"].insert(0, {"op": "mpl_epoch", "epoch": MPL_EPOCHS[(run // every // 2) % len(MPL_EPOCHS)]})
        return spec
    n_inputs = len(world["inputs"])
    n_ops = mrng.randint(2, 6) if tier == "quick" else mrng.randint(2, 12)
    ops = []
    for _ in range(n_ops):
        r = orng.random()
        if r < 0.5:
            op = {"op": "sweep", "axis": orng.choice(C11_AXES[:15] if orng.random() < 0.9 else C11_AXES),
                  "fields": orng.choice([[["Obs"], ["Fcst"]], [["Obs"], ["Fcst"]], [["Obs"]], [["Fcst"], ["Obs"]]]),
                  "input": orng.randrange(n_inputs)}
            if erng.random() < 0.35:
                op["jump"] = {"after": erng.randrange(0, 6), "env": _env_op(erng)}
            ops.append(op)
        elif r < 0.68:
            axis = orng.choice(C11_AXES[:11])
            ops.append({"op": "req", "fields": orng.choice([[["Obs"], ["Fcst"]], [["Obs"]], [["Fcst"]]]),
                        "single": False, "input": orng.randrange(n_inputs), "axis": axis,
                        "index": {"wrap": orng.randrange(0, 8)}})
        elif r < 0.76:
            ops.append({"op": "labels", "axis": orng.choice(["Time", "Year", "Month", "Week", "Day", "Location", "Lat", "Elev"])})
        elif r < 0.80:
            ops.append({"op": "cli", "axis": orng.choice(C11_AXES[:15])})
        elif r < 0.82:
            # a diagram between the calendar operations (history perturbation, no verdict of its own)
            drng = prng.stream(*parts, "diagram", len(ops))
            ops.append({"op": "diagram", "metric": drng.choice(["meteo", "meteo", "timeseries", "obsfcst", "qq", "mae", "scatter"]),
                        "input": drng.randrange(n_inputs), "date_index": drng.randrange(8) if drng.random() < 0.6 else None})
            if drng.random() < 0.7:
                ops.append({"op": "labels", "axis": drng.choice(["Time", "Year", "Month", "Week", "Day"])})
        elif r < 0.93:
            inst = _instants(orng, 40)
            # a second array with the same length, first and last element but another interior
            inst_b = [inst[0]] + (_instants(orng, 60) + list(range(inst[0] + 1, inst[0] + 60)))[:max(len(inst) - 2, 0)] + [inst[-1]]
            ops.append({"op": "buckets", "instants": inst, "instants_b": inst_b if len(inst_b) == len(inst) and len(inst) >= 3 else None,
                        "leadtimes": orng.sample([0.0, 6.0, 23.0, 23.75, 23.99, 24.0, 24.5, 47.5, 48.0, 71.99, 72.0, 240.0, 1e-3], 6)})
        else:
            n = 200 if tier == "quick" else 1500
            start = orng.choice(CONV_CRITICAL) if orng.random() < 0.35 else orng.randrange(0, CONV_DAYS - n)
            ops.append({"op": "conv", "start": min(start, CONV_DAYS - n), "n": n})
    # a sibling dataset in the same process: same number of times, same first and last time, other interior
    trng = prng.stream(*parts, "tenant")
    if len(world["universe"]["times"]) >= 3 and trng.random() < 0.35:
        sib = W.sibling_times(world, trng)
        if sib is not None:
            ops_b = []
            for _ in range(trng.randint(1, 4)):
                r = trng.random()
                if r < 0.7:
                    ops_b.append({"op": "sweep", "axis": trng.choice(C11_AXES[:9]),
                                  "fields": [["Obs"], ["Fcst"]], "input": trng.randrange(n_inputs)})
                else:
                    ops_b.append({"op": "labels", "axis": trng.choice(["Time", "Year", "Month", "Week", "Day"])})
            cfg_b = {k: v for k, v in config.items() if k not in ("times", "dates", "tods")}
            spec["others"] = [{"world": sib, "config": cfg_b, "ops": ops_b, "pre_ops": [], "mid_ops": []}]
            spec["schedule"] = _schedule(trng, len(ops), len(ops_b))
    # the environment schedule: before loading, between loading and construction, between operations
    for _ in range(erng.randint(1, 4)):
        op = _env_op(erng)
        r = erng.random()
        if r < 0.2:
            spec["pre_ops"].append(op)
        elif r < 0.4:
            spec["mid_ops"].append(op)
        else:
            ops.insert(erng.randrange(len(ops) + 1), op)
    spec["ops"] = ops
    _mpl_epoch(spec, erng)
    return spec


MPL_EPOCHS = ["0000-12-31T00:00:00", "0000-12-31T00:00:00", "1970-01-01T00:00:00", "2000-01-01T00:00:00", "1900-01-01T00:00:00"]


def _mpl_epoch(spec, erng):
    """One run in eight starts under a non-default matplotlib date epoch (matplotlibrc date.epoch): date numbers
    are relative to it, dates and unix times are not."""
    if erng.random() < 0.125:
        spec["pre_ops"].insert(0, {"op": "mpl_epoch", "epoch": erng.choice(MPL_EPOCHS)})


def c11_execute(spec, workdir):
    sims = _tenants(spec, workdir, lambda: [oracle_c11.C11Oracle()], True)
    res = engine_data.run_multi(sims, spec.get("schedule"))
    shutil.rmtree(workdir, ignore_errors=True)
    res["mode"] = spec.get("kind", "session") + ("+sibling" if spec.get("others") else "")
    if spec.get("others"):
        res["stats"]["probe:sibling_dataset_runs"] = 1
    if res["violation"] is not None:
        res["violation"]["signature"] = oracle_c11.signature(spec, res["violation"])
    res["ilv"] = _ilv_hash(spec)
    st = res["stats"]
    res["nontrivial"] = bool(st.get("probe:multi_slice_sweeps") or st.get("probe:conv_days") or st.get("probe:bucket_instants"))
    ts = spec["world"]["universe"]["times"]
    res["stats"]["calendar_span_days"] = (max(ts) - min(ts)) // 86400 if ts else 0
    return res


# ---------------------------------------------------------------------------------- C13 (engine B)
def c13_signature(spec, v):
    k = v["kind"]
    d = v.get("detail", {})
    if k == "not_rejected":
        return "not_rejected cls=%s bad=%s" % (d.get("cls"), " ".join(d.get("bad", [])))
    if k == "fault_not_rejected":
        f = d.get("fault", {})
        fmt = "?"
        for p in W.parties(spec["world"]):
            if p["name"] == f.get("file"):
                fmt = p["format"]
        return "fault_not_rejected type=%s%s%s format=%s" % (f.get("type"), ":" + f["mode"] if f.get("mode") else
                                                           (":" + f["errno"] if f.get("errno") else ""),
                                                           ":persistent" if f.get("persistent") else "", fmt)
    if k == "fault_changed_output":
        return "fault_changed_output type=%s" % v.get("detail", {}).get("fault", {}).get("type")
    if k == "config_fault_ignored":
        return "config_fault_ignored fault=%s" % d.get("fault", {}).get("type")
    return k


def _cli_ilv(spec):
    seq = []
    for c in spec["cases"]:
        if c["kind"] == "env":
            seq.append(("env", c["op"]["op"], c["op"].get("zone")))
        elif c["kind"] == "reject":
            seq.append(("reject", c["cls"], tuple(c["bad"])))
        elif c["kind"] == "fault":
            seq.append(("fault", c["fault"]["type"], c["fault"].get("mode"), c["fault"].get("errno")))
        else:
            argv = c.get("a") or c.get("argv")
            seq.append((c["kind"], tuple(t for t in argv if t.startswith("-")), bool(c.get("fault"))))
    return hashlib.sha256(repr(seq).encode()).hexdigest()[:12]


def c13_gen(seed, run, tier):
    return gen_cli.gen_spec_c13(seed, run, tier)


def c13_execute(spec, workdir):
    sim = engine_cli.CliSim(spec, workdir)
    res = sim.run()
    shutil.rmtree(workdir, ignore_errors=True)
    res["mode"] = "cli-session"
    if res["violation"] is not None:
        res["violation"]["signature"] = c13_signature(spec, res["violation"])
    res["ilv"] = _cli_ilv(spec)
    st = res["stats"]
    res["nontrivial"] = (st.get("rel_order_both_ok", 0) + st.get("rel_config_both_ok", 0) + st.get("rel_reject", 0)
                         + st.get("probe:fault_expect_reject", 0) + st.get("probe:config_fault_fired", 0)) >= 2
    return res


# ---------------------------------------------------------------------------------- C18 command-line clause (engine B)
def c18cli_execute(spec, workdir):
    sim = engine_cli.CliSim(spec, workdir)
    res = sim.run()
    shutil.rmtree(workdir, ignore_errors=True)
    res["mode"] = "cli-" + ("pinned" if spec.get("pinned", True) else "unpinned")
    v = res["violation"]
    if v is not None:
        argv = v.get("detail", {}).get("argv", [])
        rng_dep = False
        if v["kind"] == "repeat_differs" and not spec.get("pinned", True) and not spec.get("_classifying"):
            res["rerun_pinned"] = True
        if v["kind"] in ("fresh_process_differs", "fresh_vs_session_differs"):
            # unseeded global RNG differs between interpreters by construction
            w = spec["world"]["variable"]
            rng_dep = engine_cli.uses_pit(argv) and (w.get("x0") is not None or w.get("x1") is not None)
        if rng_dep:
            w = spec["world"]["variable"]
            has = w.get("x0") is not None or w.get("x1") is not None
            if engine_cli.uses_pit(argv) and has:
                sig = "rng_dependent_result field=Pit requires=x0|x1"
            else:
                sig = "rng_dependent_result cli metric=%s" % engine_cli.metric_of(argv)
            v = {"step": v["step"], "kind": "rng_dependent_result", "detail": dict(v["detail"], unpinned_kind=v["kind"]),
                 "signature": sig}
        elif v["kind"] in ("fresh_process_differs", "fresh_vs_session_differs"):
            # inherently a cross-process effect: which of the two comparisons trips may itself vary from
            # process to process, so both share one signature (the replay criterion is the signature)
            v["signature"] = "cli output_differs_between_processes metric=%s" % engine_cli.metric_of(argv)
        else:
            v["signature"] = "cli %s metric=%s" % (v["kind"], engine_cli.metric_of(argv))
        res["violation"] = v
    res["ilv"] = _cli_ilv(spec)
    res["nontrivial"] = res["stats"].get("rel_repeat_both_ok", 0) >= 1
    return res


def c18_classify(spec, res, res_pinned):
    """An unpinned run violated; `res_pinned` is the same spec executed with the global RNG pinned, from
    pristine process state.  If the violation is gone it was RNG dependence."""
    if res_pinned.get("violation") is not None:
        return res
    v = res["violation"]
    d = dict(v.get("detail", {}))
    d["unpinned_kind"] = v["kind"]
    if spec.get("engine") == "B":
        argv = d.get("argv", [])
        w = spec["world"]["variable"]
        if engine_cli.uses_pit(argv) and (w.get("x0") is not None or w.get("x1") is not None):
            sig = "rng_dependent_result field=Pit requires=x0|x1"
        else:
            sig = "rng_dependent_result cli metric=%s" % engine_cli.metric_of(argv)
        res["violation"] = {"step": v["step"], "kind": "rng_dependent_result", "detail": d, "signature": sig}
    else:
        nv = {"step": v["step"], "kind": "rng_dependent_result", "detail": d}
        vspec = spec
        if v.get("tenant"):
            nv["tenant"] = v["tenant"]
            vspec = dict(spec, world=spec["others"][v["tenant"] - 1]["world"])
        nv["signature"] = oracle_c18.signature(vspec, nv)
        res["violation"] = nv
    return res


def c18_gen_mixed(seed, run, tier):
    if run % 5 == 4:
        return gen_cli.gen_spec_c18cli(seed, run, tier)
    return c18_gen(seed, run, tier)


def c18_execute_mixed(spec, workdir):
    if spec.get("engine") == "B":
        return c18cli_execute(spec, workdir)
    return c18_execute(spec, workdir)


PROPS = {
    "C13": {"gen": c13_gen, "execute": c13_execute, "engine": "B",
            "runs": {"quick": 1200, "thorough": 40000},
            "expected_probes": ["rel_order_both_ok", "rel_config_both_ok", "rel_reject", "probe:fault_expect_reject",
                                "probe:config_fault_fired", "probe:recovery_checks", "open_error:EACCES", "read_error",
                                "torn", "corrupt:dir"],
            "rule": "one evaluation = one seeded command-line session (3-8 cases quick, up to 16 thorough) on a generated "
                    "world: order / --config equivalence pairs, syntactically invalid command lines of every class the "
                    "statement lists, and otherwise valid commands run under an injected file fault (open errors of five "
                    "errnos at the 1st-3rd open, read error after n lines, torn file, empty/garbage/junk/bit-flipped/"
                    "directory/missing file, faults on the --config file), with time-zone and RNG perturbation between "
                    "cases; non-trivial = at least two relation instances were actually decided (both sides succeeded, "
                    "or a rejection was demanded); distinct = distinct run digests among non-trivial runs"},
    "C11": {"gen": c11_gen, "execute": c11_execute, "engine": "A",
            "runs": {"quick": 3000, "thorough": 60000},
            "expected_probes": ["probe:sweeps_decoded", "probe:multi_slice_sweeps", "probe:jump_inside_sweep",
                                "probe:label_checks", "probe:bucket_instants", "probe:conv_days",
                                "probe:weighted_mean_checks", "probe:cli_count_tables", "probe:sibling_dataset_runs", "probe:bucket_collision_arrays",
                                "tz_jump", "clock_jump"],
            "rule": "one evaluation = one seeded simulated session on a world whose initialisation times cluster around "
                    "year/month/week/day boundaries, leap days and 1970-2100 extremes: sweeps over every slice of an axis "
                    "(partition, model buckets, weighted mean), single requests refined against a fresh dataset under UTC, "
                    "label, bucket-function and date-conversion checks, with time-zone and clock jumps scheduled before "
                    "loading, between loading and construction, between operations and inside sweeps; every 400th quick "
                    "run (50th thorough run) checks the conversions for 5% (100%) of the days 1900-2100 under one zone; "
                    "non-trivial = the run decoded a multi-slice sweep, or checked bucket functions/conversions; "
                    "distinct = distinct run digests among non-trivial runs"},
    "C01": {"gen": c01_gen, "execute": c01_execute, "engine": "A",
            "runs": {"quick": 4000, "thorough": 120000},
            "expected_probes": ["probe:sibling_pairs", "probe:decoded_responses", "probe:twin_compared", "probe:cli_twin_tables_compared",
                                "probe:cli_case_deletion_tables_compared"],
            "rule": "one evaluation = one seeded simulated session on a world with >= 2 parties (2-4 inputs, optional "
                    "climatology, differing coverage and missingness, inputs without obs): interleaved client scripts "
                    "issuing sibling requests (same fields/axis/slice for every input) with other clients, failing "
                    "requests, transient read faults and rebuilds in between; half of the quick runs (all thorough runs) "
                    "are repeated on a twin world with one input's forecast values changed; "
                    "non-trivial = at least one pair of sibling responses from different inputs was compared; "
                    "distinct = distinct run digests among non-trivial runs"},
    "C18": {"gen": c18_gen_mixed, "execute": c18_execute_mixed, "classify": c18_classify, "engine": "A+B",
            "runs": {"quick": 3000, "thorough": 120000},
            "rule": "one evaluation = one seeded simulated session (generated world of 1-4 inputs +/- climatology "
                    "materialised as text/NetCDF files, constructor configuration, 2-12 (quick) / up to 40 (thorough) "
                    "scheduled operations from 1-4 interleaved clients with fault/environment operations); "
                    "every fifth run is instead a command-line session (engine B) in which commands are repeated with other "
                    "commands and environment perturbation in between (a sample re-run in fresh interpreters); "
                    "non-trivial = at least two requests that missed the request cache reached the data layer (engine A) / "
                    "at least one repeated command succeeded both times (engine B); "
                    "distinct = distinct run digests (sha256 of the canonical event log) among non-trivial runs"},
}
