"""Per-property wiring: how a spec is generated, executed and judged.

execute(spec, workdir) is a pure function of the spec and of /repo's working tree.
"""
import hashlib
import json
import shutil

from . import gen_data
from . import engine_data
from . import oracle_c18
from . import oracle_c01
from . import prng
from . import world as W


def _ilv_hash(spec):
    """Interleaving signature: sequence of (client, request class / op kind)."""
    seq = []
    for op in spec["ops"]:
        if op["op"] == "req":
            seq.append((op.get("client"), "+".join(f[0] for f in op["fields"]), op["axis"], op["input"], op.get("ds", 0)))
        else:
            seq.append((op["op"],))
    return hashlib.sha256(repr(seq).encode()).hexdigest()[:12]


# ---------------------------------------------------------------------------------- C18 (engine A)
def c18_gen(seed, run, tier):
    return gen_data.gen_spec("C18", seed, run, tier, gen_data.PROFILE_C18)


def c18_execute(spec, workdir):
    sim = engine_data.DataSim(spec, workdir, oracles=[oracle_c18.C18Oracle()], want_ref=True,
                              record_arrays=spec.get("record_arrays", False))
    res = sim.run()
    shutil.rmtree(workdir, ignore_errors=True)
    res["mode"] = "pinned" if spec.get("pinned", True) else "unpinned"
    if res["violation"] is not None and not spec.get("pinned", True):
        # classify: does the violation survive with the global RNG pinned?
        spec2 = dict(spec, pinned=True)
        sim2 = engine_data.DataSim(spec2, workdir + "-p", oracles=[oracle_c18.C18Oracle()], want_ref=True)
        res2 = sim2.run()
        shutil.rmtree(workdir + "-p", ignore_errors=True)
        if res2["violation"] is None:
            v = res["violation"]
            d = dict(v.get("detail", {}))
            d["unpinned_kind"] = v["kind"]
            res["violation"] = {"step": v["step"], "kind": "rng_dependent_result", "detail": d}
    if res["violation"] is not None:
        res["violation"]["signature"] = oracle_c18.signature(spec, res["violation"])
    res["ilv"] = _ilv_hash(spec)
    st = res["stats"]
    # non-trivial: at least two requests reached the data layer and missed the request cache
    res["nontrivial"] = (st.get("req_ok", 0) + st.get("req_exit", 0) + st.get("req_exc", 0)
                         - st.get("probe:request_cache_hit", 0)) >= 2
    return res


# ---------------------------------------------------------------------------------- C01 (engine A)
PROFILE_C01 = {
    "n_inputs": (2, 4), "p_clim": 0.35, "p_has_obs": 0.7, "p_has_fcst": 1.0, "p_party_has": 0.95,
    "miss_rates": [0.05, 0.15, 0.3, 0.4], "p_keep_dim": 0.8, "n_times": (1, 5), "n_leadtimes": (1, 4),
    "n_locations": (1, 4), "p_subset": 0.03, "p_remap": 0.04, "p_dim_agg": 0.06, "p_obs_range": 0.25,
    "client_kinds": ["metric_loop", "metric_loop", "metric_loop", "diagram", "diagram", "auto_threshold",
                     "probabilistic", "from_field", "random"],
    "p_fault_kind": 0.3, "p_pinned": 1.0, "p_axis_all": 0.3,
}


def c01_gen(seed, run, tier):
    spec = gen_data.gen_spec("C01", seed, run, tier, PROFILE_C01)
    trng = prng.stream(seed, "C01", run, "twin")
    n = len(spec["world"]["inputs"])
    # single-input worlds with a climatology still have two parties; isolation needs >= 2 scored inputs
    if n >= 2 and (tier == "thorough" or trng.random() < 0.5):
        spec["twin"] = trng.randrange(n)
    else:
        spec["twin"] = None
    spec["pinned"] = True
    return spec


def c01_execute(spec, workdir):
    oracle = oracle_c01.C01Oracle()
    sim = engine_data.DataSim(spec, workdir + "/a", oracles=[oracle], want_ref=False)
    res = sim.run()
    shutil.rmtree(workdir, ignore_errors=True)
    res["mode"] = "twin" if spec.get("twin") is not None else "single"
    st = res["stats"]
    if res["violation"] is None and spec.get("twin") is not None and not st.get("construct_failed"):
        cfg = spec.get("config", {})
        protect = []
        if cfg.get("obs_field"):
            nm = oracle_c01.role_name(cfg, ["Obs"])
            if isinstance(nm, tuple):
                protect += [n for p in W.parties(spec["world"]) for n in p["fields"]
                            if W.field_kind(n)[0] == nm[0] and abs(W.field_kind(n)[1] - nm[1]) < 1e-9]
            elif nm:
                protect.append(nm)
        victim = spec["twin"]
        w2 = W.twin(spec["world"], victim, protect=tuple(protect))
        sim2 = engine_data.DataSim(dict(spec, world=w2), workdir + "/b", oracles=[], want_ref=False)
        res2 = sim2.run()
        shutil.rmtree(workdir, ignore_errors=True)
        res["stats"]["probe:twin_runs"] = 1
        if not res2["stats"].get("construct_failed"):
            if len(sim.records) != len(sim2.records):
                res["violation"] = {"step": 0, "kind": "isolation", "detail": {"sub": "history_length"}}
            else:
                for ra, rb in zip(sim.records, sim2.records):
                    if ra["req"]["input"] == victim:
                        continue
                    res["stats"]["probe:twin_compared"] = res["stats"].get("probe:twin_compared", 0) + 1
                    if ra["status"] != rb["status"] or ra["dig"] != rb["dig"]:
                        res["violation"] = {"step": ra["step"], "kind": "isolation", "detail": {
                            "sub": "status" if ra["status"] != rb["status"] else "value", "victim": victim,
                            "request": engine_data.describe_req(ra["req"]),
                            "a": [ra["status"]] + ra["dig"], "b": [rb["status"]] + rb["dig"]}}
                        break
    if res["violation"] is not None:
        res["violation"]["signature"] = oracle_c01.signature(spec, res["violation"])
    res["ilv"] = _ilv_hash(spec)
    res["nontrivial"] = st.get("probe:sibling_pairs", 0) >= 1 and len(W.parties(spec["world"])) >= 2
    return res


PROPS = {
    "C01": {"gen": c01_gen, "execute": c01_execute, "engine": "A",
            "runs": {"quick": 4000, "thorough": 150000},
            "expected_probes": ["probe:sibling_pairs", "probe:decoded_responses", "probe:twin_compared"],
            "rule": "one evaluation = one seeded simulated session on a world with >= 2 parties (2-4 inputs, optional "
                    "climatology, differing coverage and missingness, inputs without obs): interleaved client scripts "
                    "issuing sibling requests (same fields/axis/slice for every input) with other clients, failing "
                    "requests, transient read faults and rebuilds in between; half of the quick runs (all thorough runs) "
                    "are repeated on a twin world with one input's forecast values changed; "
                    "non-trivial = at least one pair of sibling responses from different inputs was compared; "
                    "distinct = distinct run digests among non-trivial runs"},
    "C18": {"gen": c18_gen, "execute": c18_execute, "engine": "A",
            "runs": {"quick": 4000, "thorough": 150000},
            "rule": "one evaluation = one seeded simulated session (generated world of 1-4 inputs +/- climatology "
                    "materialised as text/NetCDF files, constructor configuration, 2-12 (quick) / up to 40 (thorough) "
                    "scheduled operations from 1-4 interleaved clients with fault/environment operations); "
                    "non-trivial = at least two requests that missed the request cache reached the data layer; "
                    "distinct = distinct run digests (sha256 of the canonical event log) among non-trivial runs"},
}
