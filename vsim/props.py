"""Per-property wiring: how a spec is generated, executed and judged.

execute(spec, workdir) is a pure function of the spec and of /repo's working tree.
"""
import hashlib
import json
import shutil

from . import gen_data
from . import engine_data
from . import oracle_c18


def _ilv_hash(spec):
    """Interleaving signature: sequence of (client, request class / op kind)."""
    seq = []
    for op in spec["ops"]:
        if op["op"] == "req":
            seq.append((op.get("client"), "+".join(f[0] for f in op["fields"]), op["axis"], op["input"], op.get("ds", 0)))
        else:
            seq.append((op["op"],))
    return hashlib.sha256(repr(seq).encode()).hexdigest()[:12]


# ---------------------------------------------------------------------------------- C18 (engine A)
def c18_gen(seed, run, tier):
    return gen_data.gen_spec("C18", seed, run, tier, gen_data.PROFILE_C18)


def c18_execute(spec, workdir):
    sim = engine_data.DataSim(spec, workdir, oracles=[oracle_c18.C18Oracle()], want_ref=True,
                              record_arrays=spec.get("record_arrays", False))
    res = sim.run()
    shutil.rmtree(workdir, ignore_errors=True)
    res["mode"] = "pinned" if spec.get("pinned", True) else "unpinned"
    if res["violation"] is not None and not spec.get("pinned", True):
        # classify: does the violation survive with the global RNG pinned?
        spec2 = dict(spec, pinned=True)
        sim2 = engine_data.DataSim(spec2, workdir + "-p", oracles=[oracle_c18.C18Oracle()], want_ref=True)
        res2 = sim2.run()
        shutil.rmtree(workdir + "-p", ignore_errors=True)
        if res2["violation"] is None:
            v = res["violation"]
            d = dict(v.get("detail", {}))
            d["unpinned_kind"] = v["kind"]
            res["violation"] = {"step": v["step"], "kind": "rng_dependent_result", "detail": d}
    if res["violation"] is not None:
        res["violation"]["signature"] = oracle_c18.signature(spec, res["violation"])
    res["ilv"] = _ilv_hash(spec)
    st = res["stats"]
    # non-trivial: at least two requests reached the data layer and missed the request cache
    res["nontrivial"] = (st.get("req_ok", 0) + st.get("req_exit", 0) + st.get("req_exc", 0)
                         - st.get("probe:request_cache_hit", 0)) >= 2
    return res


PROPS = {
    "C18": {"gen": c18_gen, "execute": c18_execute, "engine": "A",
            "runs": {"quick": 4000, "thorough": 150000},
            "rule": "one evaluation = one seeded simulated session (generated world of 1-4 inputs +/- climatology "
                    "materialised as text/NetCDF files, constructor configuration, 2-12 (quick) / up to 40 (thorough) "
                    "scheduled operations from 1-4 interleaved clients with fault/environment operations); "
                    "non-trivial = at least two requests that missed the request cache reached the data layer; "
                    "distinct = distinct run digests (sha256 of the canonical event log) among non-trivial runs"},
}
