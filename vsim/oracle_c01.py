"""C01 oracle: fair comparison -- every input is scored on the identical set of cases.

Evaluated over the recorded history after every step (passive: never issues requests).

 1. Agreement   any two successful responses to the same (fields, axis, slice, dataset) from
                different inputs have identical case sets and bit-identical observation arrays.
 2. Membership  (one direction, "only if") every case present in a response is complete in the
                generated ground truth for every requested quantity in every party that carries it,
                lies inside -obsrange, and has a usable climatology value.
 3. Isolation   (twin world, run by props.c01_execute) responses for the other inputs are
                bit-identical when one input's non-missing forecast-type values are changed.

Ground truth comes from the world tables, not from verif.
"""
import numpy as np

from .engine_data import Oracle, adigest, describe_req
from . import world as W


def role_name(config, f):
    """Stored column a requested field refers to (None if derived/unknown)."""
    kind = f[0]
    if kind == "Obs":
        f = config.get("obs_field") or ["Obs"]
        kind = f[0]
        if kind == "Obs":
            return "obs"
    elif kind == "Fcst":
        f = config.get("fcst_field") or ["Fcst"]
        kind = f[0]
        if kind == "Fcst":
            return "fcst"
    if kind == "Obs":
        return "obs"
    if kind == "Fcst":
        return "fcst"
    if kind == "Pit":
        return "pit"
    if kind == "Ensemble":
        return "e%d" % f[1]
    if kind == "Other":
        return f[1]
    if kind == "Threshold":
        return ("thr", f[1])
    if kind == "Quantile":
        return ("q", f[1])
    return None


class C01Oracle(Oracle):
    name = "C01"

    def begin(self, sim):
        self.truth = W.truth(sim.world)
        self.parties = W.parties(sim.world)
        self.n_parties = len(self.parties)
        u = sim.world["universe"]
        self.ut = {t: i for i, t in enumerate(u["times"])}
        self.ul = {l: i for i, l in enumerate(u["leadtimes"])}
        self.us = {l["id"]: i for i, l in enumerate(u["locations"])}
        self.groups = {}
        self.cfg = sim.config
        self.dim_agg = sim.config.get("dim_agg_length") is not None
        self.has_clim = sim.has_clim
        self.dims_cache = {}

    # -- helpers ---------------------------------------------------------------
    def dims(self, sim, ds):
        if ds not in self.dims_cache:
            d = sim.datasets[ds]
            try:
                T = [self.ut[int(t)] for t in d.times]
                L = [self.ul[float(l)] for l in d.leadtimes]
                S = [self.us[int(loc.id)] for loc in d.locations]
                self.dims_cache[ds] = (T, L, S)
            except KeyError:
                self.dims_cache[ds] = None
        return self.dims_cache[ds]

    def stored(self, k, name):
        """Truth array of stored column `name` in party k, or None."""
        if isinstance(name, tuple):
            kind, val = name
            for n in self.truth[k]:
                fk = W.field_kind(n)
                # verif uses a stored p<threshold>/q<quantile> column when its value is np.isclose to the
                # requested one (data.py: np.isclose(input.thresholds, field.threshold))
                if fk[0] == kind and np.isclose(fk[1], val):
                    return self.truth[k][n]
            return None
        return self.truth[k].get(name)

    def members(self, k):
        ms = sorted((W.field_kind(n)[1], n) for n in self.truth[k] if W.field_kind(n)[0] == "ens")
        return [self.truth[k][n] for _, n in ms]

    def complete(self, f, case):
        """Necessary condition (from the ground truth) for `case` to be usable for requested field f.
        Returns (ok, why)."""
        name = role_name(self.cfg, f)
        if name is None:
            return True, None
        is_obs_role = f[0] == "Obs"
        for k in range(self.n_parties):
            if isinstance(name, tuple):
                arr = self.stored(k, name)
                if arr is not None and not self.dim_agg:
                    if not np.isfinite(arr[case]):
                        return False, "party %d %s%g missing" % (k, name[0], name[1])
                else:
                    ms = self.members(k)
                    if not ms:
                        continue
                    vals = [m[case] for m in ms]
                    if name[0] == "thr" and all(not np.isfinite(v) for v in vals) and all(np.isnan(v) for v in vals):
                        return False, "party %d all members missing" % k
                    if name[0] == "q" and any(np.isnan(v) for v in vals):
                        return False, "party %d a member missing" % k
            else:
                arr = self.stored(k, name)
                if arr is None:
                    if is_obs_role:
                        continue     # scored against another file's observations
                    continue         # (request would have failed; not our business here)
                if not np.isfinite(arr[case]):
                    return False, "party %d %s missing" % (k, name)
        return True, None

    def decode(self, sim, record):
        """Case set of a successful response, or None when it cannot be decoded soundly."""
        req = record["req"]
        dims = self.dims(sim, record["ds"])
        if dims is None:
            return None
        T, L, S = dims
        arrays = record["arrays"]
        if req["axis"] == "All":
            a = arrays[0]
            if a.ndim != 3 or a.shape != (len(T), len(L), len(S)):
                return None
            idx = np.argwhere(~np.isnan(a))
            return set((T[i], L[j], S[s]) for i, j, s in idx)
        if self.dim_agg:
            return None
        k = req["input"]
        for pos, f in enumerate(req["fields"]):
            if f[0] not in ("Obs", "Fcst"):
                continue
            name = role_name(self.cfg, f)
            if name not in ("obs", "fcst"):
                continue
            arr = None
            if name == "obs" and f[0] == "Obs":
                # observations are the same tags in every holder: use the union of the holders
                for kk in range(self.n_parties):
                    if "obs" in self.truth[kk]:
                        a = self.truth[kk]["obs"]
                        arr = a.copy() if arr is None else np.where(np.isnan(arr), a, arr)
            else:
                arr = self.truth[k].get(name)
            if arr is None:
                continue
            clim = None
            if self.has_clim:
                cname = role_name(self.cfg, ["Fcst"])
                clim = self.stored(self.n_parties - 1, cname) if not isinstance(cname, tuple) else None
                if clim is None:
                    continue
            vmap = {}
            ok = True
            with np.errstate(all="ignore"):
                for ti in T:
                    for li in L:
                        for si in S:
                            v = arr[ti, li, si]
                            if not np.isfinite(v):
                                continue
                            if clim is not None:
                                c = clim[ti, li, si]
                                v = v - c if self.cfg.get("clim_type", "subtract") == "subtract" else v / c
                                if np.isnan(v) or np.isinf(v):
                                    continue
                            v = float(v)
                            if v in vmap:
                                ok = False
                            vmap[v] = (ti, li, si)
            if not ok:
                continue
            vals = np.asarray(arrays[pos]).flatten()
            if vals.shape == (1,) and np.isnan(vals[0]):
                return set()
            out = set()
            for v in vals:
                c = vmap.get(float(v))
                if c is None:
                    return None   # value is not this input's value for any common case: not decodable (C02's business)
                out.add(c)
            if len(out) != len(vals):
                return None
            return out
        return None

    # -- checks ----------------------------------------------------------------
    def after_request(self, sim, step, record):
        if record["status"] != "ok":
            return
        req = record["req"]
        k = req["input"]
        if not (0 <= k < sim.n_inputs):
            return
        cases = self.decode(sim, record)
        record["cases"] = cases
        if cases is not None:
            sim.stats["probe:decoded_responses"] += 1
        if cases is not None and not self.dim_agg:
            # 2. membership (with -T the quantity used at a case is a window aggregate, whose
            #    missingness is not that of the raw cell: membership is not modelled there)
            lo_hi = self.cfg.get("obs_range")
            for c in sorted(cases):
                for f in req["fields"]:
                    ok, why = self.complete(f, c)
                    if not ok:
                        sim.violate(step, "membership", {"case": list(c), "why": why, "field": f[0],
                                                         "request": describe_req(req), "clim": self.has_clim,
                                                         "dim_agg": self.dim_agg})
                        return
                if self.has_clim and any(f[0] in ("Obs", "Fcst") for f in req["fields"]):
                    cname = role_name(self.cfg, ["Fcst"])
                    if not isinstance(cname, tuple) and cname is not None and not self.dim_agg:
                        carr = self.stored(self.n_parties - 1, cname)
                        if carr is not None:
                            cv = carr[c]
                            if np.isnan(cv) or (self.cfg.get("clim_type") == "divide" and cv == 0):
                                sim.violate(step, "membership", {"case": list(c), "why": "climatology missing/zero",
                                                                 "field": "clim", "request": describe_req(req),
                                                                 "clim": True, "dim_agg": self.dim_agg})
                                return
                if lo_hi and not self.dim_agg and any(f[0] == "Obs" for f in req["fields"]):
                    name = role_name(self.cfg, ["Obs"])
                    if not isinstance(name, tuple) and name is not None:
                        ov = None
                        for kk in [k] + list(range(self.n_parties)):
                            a = self.stored(kk, name)
                            if a is not None:
                                ov = a[c]
                                break
                        if ov is not None and not np.isnan(ov) and not (lo_hi[0] <= ov <= lo_hi[1]):
                            sim.violate(step, "membership", {"case": list(c), "why": "observation outside -obsrange",
                                                             "field": "Obs", "request": describe_req(req),
                                                             "clim": self.has_clim, "dim_agg": self.dim_agg})
                            return
        # 1. agreement with siblings
        key = (repr(req["fields"]), bool(req.get("single")), req["axis"], repr(record["index"]), record["ds"])
        group = self.groups.setdefault(key, {})
        for j, other in group.items():
            if j == k:
                continue
            sim.stats["probe:sibling_pairs"] += 1
            la = [np.asarray(a).shape for a in record["arrays"]]
            lb = [np.asarray(a).shape for a in other["arrays"]]
            if la != lb:
                sim.violate(step, "agreement", {"sub": "count", "inputs": [j, k], "shapes": [lb, la],
                                                "request": describe_req(req), "remap": self.remap_flag(),
                                                "dim_agg": self.dim_agg, "cause": self.range_cause(req, j, k)})
                return
            ca, cb = record.get("cases"), other.get("cases")
            if ca is not None and cb is not None and ca != cb:
                sim.violate(step, "agreement", {"sub": "cases", "inputs": [j, k],
                                                "only_in_first": sorted(cb - ca)[:4], "only_in_second": sorted(ca - cb)[:4],
                                                "request": describe_req(req), "remap": self.remap_flag(),
                                                "dim_agg": self.dim_agg, "cause": self.range_cause(req, j, k)})
                return
            if not self.cfg.get("obs_field"):
                for pos, f in enumerate(req["fields"]):
                    if f[0] == "Obs" and other["dig"][pos] != record["dig"][pos]:
                        sim.violate(step, "agreement", {"sub": "obs_values", "inputs": [j, k],
                                                        "request": describe_req(req), "remap": self.remap_flag(),
                                                        "dim_agg": self.dim_agg,
                                                        "cause": self.obs_window_cause(j, k),
                                                        "a": np.asarray(other["arrays"][pos]).flatten()[:6].tolist(),
                                                        "b": np.asarray(record["arrays"][pos]).flatten()[:6].tolist()})
                        return
        group[k] = record

    def range_cause(self, req, i, j):
        """Under -T with -obsrange, files whose aggregated observations differ (known finding K1) are
        range-filtered differently, which shows as differing case sets / counts.  Only that path is
        attributed; anything else stays 'unknown'."""
        if self.dim_agg and self.cfg.get("obs_range") and any(f[0] == "Obs" for f in req["fields"]) \
                and not self.cfg.get("obs_field"):
            return self.obs_window_cause(i, j)
        return "none" if not self.dim_agg else "unknown"

    def obs_window_cause(self, i, j):
        """Under -T: do the two inputs aggregate over different raw observation windows?
        (own dimension grid along the aggregation axis, or own missing observations, differ)"""
        if not self.dim_agg:
            return "none"
        key = "times" if self.cfg.get("dim_agg_axis") == "Time" else "leadtimes"
        holders = [k for k in range(self.n_parties) if "obs" in self.truth[k]]

        def src(k):
            return k if k in holders else (holders[0] if holders else None)
        a, b = src(i), src(j)
        if a is None or b is None or a == b:
            return "unknown"
        pa, pb = self.parties[a], self.parties[b]
        if pa[key] != pb[key]:
            return "window_differs"
        ma = np.isnan(self.truth[a]["obs"])
        mb = np.isnan(self.truth[b]["obs"])
        if not np.array_equal(ma, mb):
            return "window_differs"
        return "unknown"

    def remap_flag(self):
        return bool(self.cfg.get("obs_field") or self.cfg.get("fcst_field"))


def signature(spec, violation):
    k = violation["kind"]
    d = violation.get("detail", {})
    if k == "agreement":
        if d.get("sub") == "obs_values":
            return "agreement sub=obs_values dim_agg=%s cause=%s" % (d.get("dim_agg"), d.get("cause"))
        if d.get("dim_agg"):
            return "agreement sub=%s dim_agg=True cause=%s" % (d.get("sub"), d.get("cause"))
        return "agreement sub=%s dim_agg=%s remap=%s" % (d.get("sub"), d.get("dim_agg"), d.get("remap"))
    if k == "membership":
        return "membership field=%s why=%s dim_agg=%s" % (d.get("field"), (d.get("why") or "").split(" ", 2)[-1], d.get("dim_agg"))
    if k == "isolation":
        return "isolation sub=%s" % d.get("sub")
    return k
