"""Engine A: the dataset simulator.

Runs the real verif.data.Data / verif.input.* code of /repo's working tree inside one
process against a generated world.  A run is a pure function of its *spec*
(world + constructor configuration + linear operation list + mode flags): the spec is
the replay file.  The scheduler's choices (which client issues its next request, where
faults and environment jumps land) are already folded into the linear operation list by
the generator (vsim.gen_data), so executing a spec draws no random numbers at all.

Operations
  req      one Data.get_scores request against live dataset `ds`
  arm      arm a transient read fault at the verif.util.clean seam
  interrupt  arm an asynchronous exception (KeyboardInterrupt / MemoryError) at the n-th line event inside
             verif's own code during the next request that runs that long (crash at an arbitrary point of
             an operation; the dataset object survives with whatever the interrupted request left behind)
  rebuild  build another Data object on the *same* input objects
  rng      perturb the global NumPy RNG
  tz       change the process time zone (TZ + tzset)
  clock    jump the simulated wall clock
  sweep / conv / labels   calendar operations (see oracle_c11)
"""
import contextlib
import gc
import hashlib
import io
import json
import os
import sys
import warnings
from collections import Counter

import numpy as np

from . import seams
from . import world as W

AXES = ["All", "No", "Time", "Leadtime", "Leadtimeday", "Location", "Lat", "Lon", "Elev", "Year", "Month",
        "Week", "Day", "Timeofday", "Dayofyear", "Dayofmonth", "Monthofyear", "Threshold", "Obs", "Fcst"]


def _verif():
    import verif.axis
    import verif.aggregator
    import verif.data
    import verif.field
    import verif.input
    import verif.util
    import verif
    return verif


def mk_field(f):
    v = _verif()
    kind = f[0]
    if kind == "Obs":
        return v.field.Obs()
    if kind == "Fcst":
        return v.field.Fcst()
    if kind == "Pit":
        return v.field.Pit()
    if kind == "Spread":
        return v.field.Spread()
    if kind == "Ensemble":
        return v.field.Ensemble(f[1])
    if kind == "Threshold":
        return v.field.Threshold(f[1])
    if kind == "Quantile":
        return v.field.Quantile(f[1])
    if kind == "Other":
        return v.field.Other(f[1])
    raise ValueError("bad field %r" % (f,))


def mk_axis(name):
    v = _verif()
    return getattr(v.axis, name)()


def adigest(a):
    b = np.ascontiguousarray(np.asarray(a))
    if b.dtype.kind == "f":
        b = np.where(np.isnan(b), np.nan, b)
    h = hashlib.sha256()
    h.update(str(b.dtype).encode())
    h.update(str(b.shape).encode())
    h.update(b.tobytes())
    return h.hexdigest()[:16]


def data_kwargs(config, has_clim):
    v = _verif()
    kw = {}
    for k in ("times", "dates", "tods", "leadtimes", "locations", "locations_x", "lat_range", "lon_range",
              "elev_range", "obs_range"):
        if config.get(k) is not None:
            kw[k] = list(config[k])
    if config.get("obs_field"):
        kw["obs_field"] = mk_field(config["obs_field"])
    if config.get("fcst_field"):
        kw["fcst_field"] = mk_field(config["fcst_field"])
    if config.get("dim_agg_length") is not None:
        kw["dim_agg_length"] = config["dim_agg_length"]
        kw["dim_agg_axis"] = mk_axis(config.get("dim_agg_axis", "Leadtime"))
        kw["dim_agg_method"] = v.aggregator.get(config.get("dim_agg_method", "mean"))
    if has_clim:
        kw["clim_type"] = config.get("clim_type", "subtract")
    return kw


class Quiet(object):
    """Capture stdout (verif prints warnings and errors there)."""

    def __enter__(self):
        self.buf = io.StringIO()
        self._cm = contextlib.redirect_stdout(self.buf)
        self._cm.__enter__()
        return self

    def __exit__(self, *a):
        self._cm.__exit__(*a)
        return False


def classify(exc):
    if isinstance(exc, SystemExit):
        return "exit(%s)" % (exc.code,)
    return "exc(%s)" % type(exc).__name__


class Dataset(object):
    """Freshly loaded inputs + one Data object; closes NetCDF handles when released."""

    def __init__(self, names, n_inputs, has_clim, config, mid_hook=None):
        v = _verif()
        self.inputs = []
        self.data = None
        self.status = "ok"
        try:
            with Quiet():
                for n in names:
                    self.inputs.append(v.input.get_input(n))
                if mid_hook is not None:
                    mid_hook()      # environment operations between loading and construction
                ins = self.inputs[:n_inputs]
                clim = self.inputs[n_inputs] if has_clim else None
                self.data = v.data.Data(ins, clim=clim, **data_kwargs(config, has_clim))
        except (SystemExit, Exception) as e:
            self.status = classify(e)

    def rebuild(self, n_inputs, has_clim, config):
        v = _verif()
        try:
            with Quiet():
                ins = self.inputs[:n_inputs]
                clim = self.inputs[n_inputs] if has_clim else None
                return v.data.Data(ins, clim=clim, **data_kwargs(config, has_clim)), "ok"
        except (SystemExit, Exception) as e:
            return None, classify(e)

    def close(self):
        for inp in self.inputs:
            # best effort only: `_file` is a private detail of verif.input.Netcdf (it may be absent, or a
            # property that opens the file) - the handles are also closed when the objects are collected
            try:
                f = inp.__dict__.get("_file")
                if f is not None:
                    f.close()
            except Exception:
                pass
        self.inputs = []
        self.data = None


class LineInterrupt(object):
    """Raises an exception at the n-th 'line' event inside verif's own source files (sys.settrace): the
    simulator's version of Ctrl-C / a failed allocation at an arbitrary point of a running request."""

    def __init__(self, nth, exc):
        self.nth = nth
        self.exc = {"KeyboardInterrupt": KeyboardInterrupt, "MemoryError": MemoryError}[exc]
        self.count = 0
        self.where = None
        self.root = os.path.dirname(os.path.abspath(_verif().__file__)) + os.sep

    def _local(self, frame, event, arg):
        if event == "line" and self.where is None:
            self.count += 1
            if self.count == self.nth:
                self.where = "%s:%d" % (os.path.basename(frame.f_code.co_filename), frame.f_lineno)
                raise self.exc("injected by the simulator")
        return self._local

    def _global(self, frame, event, arg):
        if self.where is None and frame.f_code.co_filename.startswith(self.root):
            return self._local
        return None

    def __enter__(self):
        self.count = 0
        sys.settrace(self._global)
        return self

    def __exit__(self, *a):
        sys.settrace(None)
        return False


def do_request(data, req, index, interrupt=None):
    """Issue one request; returns (status, arrays, raw_result)."""
    fields = [mk_field(f) for f in req["fields"]]
    arg = fields[0] if req.get("single") else fields
    axis = mk_axis(req["axis"])
    try:
        with Quiet():
            if interrupt is not None:
                with interrupt:
                    res = data.get_scores(arg, req["input"], axis, index)
            else:
                res = data.get_scores(arg, req["input"], axis, index)
        arrays = [res] if req.get("single") else list(res)
        return "ok", arrays, res
    except (SystemExit, Exception) as e:
        return classify(e), [], None
    except KeyboardInterrupt as e:
        if interrupt is None or interrupt.where is None:
            raise
        return classify(e), [], None


AUX_CALLS = ["get_fields", "get_axis_size", "get_axis_values", "get_axis_descriptions", "get_legend", "get_names",
             "get_full_names", "get_short_names", "get_variable_and_units", "get_num_members", "get_axis_locator",
             "attr:times", "attr:leadtimes", "attr:locations", "attr:thresholds", "attr:quantiles", "attr:variable",
             "attr:num_inputs"]


def _aux_repr(val):
    if isinstance(val, np.ndarray):
        return "nd:" + adigest(val) if val.dtype.kind in "fiub" else "nd:%s:%s" % (val.shape, val.dtype)
    if isinstance(val, (list, tuple)):
        items = [_aux_repr(x) for x in list(val)[:200]]
        if any(not isinstance(x, (int, float, np.integer, np.floating)) for x in list(val)[:200]):
            items = sorted(items)       # collections of objects may come out of hash-ordered containers
        return "[%s]" % ",".join(items)
    if isinstance(val, (int, float, str, bool)) or val is None:
        return repr(val)
    nm = getattr(val, "name", None)
    if callable(nm):
        try:
            return "%s:%s" % (type(val).__name__, nm())
        except Exception:
            pass
    return type(val).__name__


def do_aux(data, op):
    """Call one public accessor; returns a canonical, address-free description of the outcome."""
    call = op["call"]
    try:
        with Quiet():
            if call.startswith("attr:"):
                val = getattr(data, call[5:])
            elif call in ("get_axis_size", "get_axis_values", "get_axis_descriptions", "get_axis_locator"):
                val = getattr(data, call)(mk_axis(op.get("axis", "Time")))
                if call == "get_axis_locator":
                    val = type(val).__name__
            elif call == "get_num_members":
                val = data.get_num_members(op.get("input", 0))
            else:
                val = getattr(data, call)()
        return {"status": "ok", "val": hashlib.sha256(_aux_repr(val).encode()).hexdigest()[:12]}
    except (SystemExit, Exception) as e:
        return {"status": classify(e)}


def input_snapshot(inp):
    """Digests of every array a text input holds (NetCDF inputs re-read the file on access)."""
    out = {}
    for name in ("obs", "fcst", "pit", "ensemble", "threshold_scores", "quantile_scores", "times", "leadtimes",
                 "thresholds", "quantiles"):
        if name in inp.__dict__:
            val = inp.__dict__[name]
            if val is not None:
                out[name] = adigest(val)
    others = inp.__dict__.get("_other_scores")
    if isinstance(others, dict):
        for k in sorted(others):
            out["other:" + k] = adigest(others[k])
    return out


def file_digest(path):
    with open(path, "rb") as f:
        return hashlib.sha256(f.read()).hexdigest()[:16]


class RefServer(object):
    """The reference model runs in its own forked process.

    It is forked from the simulator right after the world has been materialised and before the live
    dataset exists, so it starts from pristine interpreter state, lives under TZ=UTC with fault
    injection off, and serves nothing but references of this one world: each query builds a fresh
    dataset from freshly read inputs, issues the single request and returns status + digests.  Process
    level state that the live history (or another tenant of the simulated process) leaves behind in
    module/class attributes therefore cannot contaminate the reference.
    """

    def __init__(self, sim):
        import pickle
        self._pickle = pickle
        pr, cw = os.pipe()      # child -> parent
        cr, pw = os.pipe()      # parent -> child
        pid = os.fork()
        if pid == 0:
            code = 0
            try:
                os.close(pr)
                os.close(pw)
                sim.cf.active = False
                sim.cf.armed = []
                if getattr(sim, "_ref_dir", None):
                    os.chdir(sim._ref_dir)
                # a fresh process has its own global RNG state (unpinned comparisons must not share it)
                from . import prng as _prng
                np.random.seed(_prng.derive_int(sim.spec.get("seed"), sim.spec.get("run"), "np-global-reference") % (2 ** 32))
                fin = os.fdopen(cr, "rb")
                fout = os.fdopen(cw, "wb")
                while True:
                    try:
                        msg = pickle.load(fin)
                    except EOFError:
                        break
                    if msg is None:
                        break
                    try:
                        out = sim._reference_local(*msg)
                    except BaseException as e:       # noqa
                        out = {"status": "harness:" + repr(e), "dig": []}
                    pickle.dump(out, fout, protocol=pickle.HIGHEST_PROTOCOL)
                    fout.flush()
            except BaseException:
                code = 3
            finally:
                os._exit(code)
        os.close(cr)
        os.close(cw)
        self.pid = pid
        self.fin = os.fdopen(pr, "rb")
        self.fout = os.fdopen(pw, "wb")

    def query(self, req, index, pinned, pin_seed, record_arrays):
        self._pickle.dump((req, index, pinned, pin_seed, record_arrays), self.fout, protocol=self._pickle.HIGHEST_PROTOCOL)
        self.fout.flush()
        try:
            out = self._pickle.load(self.fin)
        except EOFError:
            raise RuntimeError("reference server died")
        if out["status"].startswith("harness:"):
            raise RuntimeError("reference server: " + out["status"])
        return out

    def close(self):
        try:
            self._pickle.dump(None, self.fout)
            self.fout.flush()
        except Exception:
            pass
        for f in (self.fout, self.fin):
            try:
                f.close()
            except Exception:
                pass
        try:
            os.waitpid(self.pid, 0)
        except Exception:
            pass


class DataSim(object):
    def __init__(self, spec, workdir, oracles=(), want_ref=True, record_arrays=False):
        self.spec = spec
        self.world = spec["world"]
        self.config = spec.get("config", {})
        self.ops = spec["ops"]
        self.pinned = spec.get("pinned", True)
        self.pin_seed = spec.get("pin_seed", 12345)
        self.workdir = workdir
        self.oracles = list(oracles)
        self.want_ref = want_ref
        self.record_arrays = record_arrays
        self.stats = Counter()
        self.states = set()
        self.log = []
        self.records = []
        self.violation = None
        self.env = seams.Env()
        self.cf = seams.CleanFaults()
        self._refmemo = {}
        self._open = []
        self.names = None
        self.n_inputs = len(self.world["inputs"])
        self.has_clim = bool(self.world.get("clim"))
        self.returned = []      # (step, array object, digest) of every array ever returned
        self.ref_env_utc = spec.get("ref_utc", False)
        self.refserver = None
        self.pending_interrupt = None

    # ------------------------------------------------------------------ helpers
    def fresh(self):
        ds = Dataset(self.names, self.n_inputs, self.has_clim, self.config)
        return ds

    def reference(self, req, index):
        """Same request as the only request on a freshly built dataset (the executable reference model),
        evaluated by this tenant's reference server process."""
        key = json.dumps([req["fields"], bool(req.get("single")), req["input"], req["axis"], index], sort_keys=True)
        if key in self._refmemo:
            self.stats["ref_memo_hit"] += 1
            return self._refmemo[key]
        if self.refserver is not None:
            out = self.refserver.query(req, index, self.pinned, self.pin_seed, self.record_arrays)
        else:
            out = self._reference_local(req, index, self.pinned, self.pin_seed, self.record_arrays)
        self.stats["ref_evals"] += 1
        self._refmemo[key] = out
        return out

    def _reference_local(self, req, index, pinned, pin_seed, record_arrays):
        self.cf.active = False
        rng_state = np.random.get_state()
        try:
            ds = self.fresh()
            if ds.status != "ok":
                out = {"status": "construct:" + ds.status, "dig": []}
            else:
                if pinned:
                    np.random.seed(pin_seed)
                status, arrays, _ = do_request(ds.data, req, index)
                out = {"status": status, "dig": [adigest(a) for a in arrays]}
                if record_arrays:
                    out["arrays"] = [np.array(a, copy=True) for a in arrays]
            ds.close()
        finally:
            np.random.set_state(rng_state)
            self.cf.active = True
        return out

    def resolve_index(self, req):
        idx = req.get("index")
        if isinstance(idx, dict):
            size = self.axis_size(req["axis"])
            return idx["wrap"] % size if size > 0 else 0
        return idx

    def axis_size(self, axis_name):
        if axis_name not in self._sizes:
            try:
                with Quiet():
                    self._sizes[axis_name] = int(self.probe.data.get_axis_size(mk_axis(axis_name)))
            except (SystemExit, Exception):
                self._sizes[axis_name] = 1
        return self._sizes[axis_name]

    def violate(self, step, kind, detail):
        if self.violation is None:
            self.violation = {"step": step, "kind": kind, "detail": detail}

    def emit(self, rec):
        self.log.append(json.dumps(rec, sort_keys=True, default=str))

    # ------------------------------------------------------------------ run
    def run(self):
        """Single-dataset run.  Multi-tenant runs (several worlds interleaved in one process) go
        through run_multi(), which shares the environment seams between the sims."""
        return run_multi([self], None)

    def result(self, extra_logs=()):
        logs = list(self.log)
        for l in extra_logs:
            logs.extend(l)
        digest = hashlib.sha256("\n".join(logs).encode()).hexdigest()[:20]
        fired = Counter()
        fired.update(self.env.fired)
        fired.update(self.cf.fired)
        for k in ("fail_request", "rebuild_on_same_inputs", "rng_perturb", "replace_file_while_open", "aux_call",
                  "interrupt_request"):
            if self.stats.get("fired:" + k):
                fired[k] += self.stats["fired:" + k]
        return {"violation": self.violation, "digest": digest, "stats": dict(self.stats), "fired": dict(fired),
                "states": sorted(self.states), "log": logs, "steps": len(self.ops),
                "sim_time": float(self.env.span + 0.001 * self.stats.get("ref_evals", 0))}

    def prepare(self):
        """Materialise the world, build probe and live dataset.  Returns False when nothing can be stepped."""
        self.emit({"seed": self.spec.get("seed"), "run": self.spec.get("run"), "prop": self.spec.get("prop")})
        self.names = W.materialise(self.world, ".")
        self.file_digests = {n: file_digest(n) for n in self.names}
        self._sizes = {}
        if self.want_ref and any(op.get("op") == "replace_file" for op in self.ops):
            # the reference model reads its own copy of the stored files: a file replaced under the feet of
            # the live dataset (replace_file) is an event of the live history only
            W.materialise(self.world, "ref")
            self._ref_dir = "ref"
        if self.want_ref:
            # forked now: pristine state, TZ=UTC, before any environment operation or live request
            self.refserver = RefServer(self)
        # environment schedule entries that precede loading
        for op in self.spec.get("pre_ops", []):
            self.apply_env(op)
        self.probe = self.fresh()
        self._open.append(self.probe)
        mid = self.spec.get("mid_ops") or []
        live = Dataset(self.names, self.n_inputs, self.has_clim, self.config,
                       mid_hook=(lambda: [self.apply_env(op) for op in mid]) if mid else None)
        self._open.append(live)
        self.live = live
        self.emit({"construct": live.status})
        if live.status != "ok" or self.probe.status != "ok":
            self.stats["construct_failed"] += 1
            if live.status != self.probe.status:
                self.violate(-1, "construct_nondeterministic", {"a": live.status, "b": self.probe.status})
            return False
        self.datasets = [live.data]
        self.snapshots = [input_snapshot(i) for i in live.inputs]
        for o in self.oracles:
            o.begin(self)
        return True

    def conclude(self):
        if self.violation is None:
            for o in self.oracles:
                o.finish(self)

    def release(self):
        if self.refserver is not None:
            self.refserver.close()
            self.refserver = None
        for ds in self._open:
            ds.close()
        self._open = []

    def apply_env(self, op):
        if op["op"] == "tz":
            self.env.set_zone(op["zone"])
        elif op["op"] == "clock":
            self.env.jump_clock(op["delta"])
        elif op["op"] == "mpl_epoch":
            self.env.set_mpl_epoch(op["epoch"])
        elif op["op"] == "rng":
            np.random.seed(op["seed"] % (2 ** 32))
            if op.get("draws"):
                np.random.rand(op["draws"])
            self.stats["fired:rng_perturb"] += 1

    def cache_signature(self):
        """Read-only abstract state of the live caches (coverage measure only, never a verdict)."""
        sig = []
        try:
            for d, data in enumerate(self.datasets):
                loaded = []
                for i, c in enumerate(data._get_score_cache):
                    for f in c.keys():
                        nm = f.name() if callable(getattr(f, "name", None)) else str(f)
                        loaded.append("%d:%s" % (i, nm))
                sig.append((tuple(sorted(loaded)), len(data._get_scores_cache)))
        except Exception:
            # the private cache attributes are an implementation detail: when they are gone (refactored
            # code) fall back to a black-box abstraction of the state: the set of request shapes served so far
            self.stats["probe:cache_introspection_unavailable"] = 1
            shapes = sorted(set((r["ds"], "+".join(f[0] for f in r["req"]["fields"]), r["req"]["input"]) for r in self.records))
            sig = [("blackbox", tuple(shapes))]
        return hashlib.sha256(repr(sig).encode()).hexdigest()[:12]

    def step(self, step, op):
        kind = op["op"]
        rec = {"i": step, "op": op}
        if kind in ("tz", "clock", "rng", "mpl_epoch"):
            self.apply_env(op)
            self.emit(rec)
            for o in self.oracles:
                o.after_env(self, step, op)
            return
        if kind == "arm":
            self.cf.arm(op["file"], op["var"], op["nth"], op.get("kind", "hdf"))
            self.emit(rec)
            return
        if kind == "interrupt":
            self.pending_interrupt = {"nth": op["nth"], "exc": op.get("exc", "KeyboardInterrupt")}
            self.emit(rec)
            return
        if kind == "replace_file":
            # the path gets a new inode with other content (same dimensions, other values), the way rsync or
            # mv replace a file, while the live dataset still uses the input object loaded from the old one
            name = op["file"]
            party = [p_ for p_ in W.parties(self.world) if p_["name"] == name]
            if party:
                idx = W.parties(self.world).index(party[0])
                w2 = W.twin(self.world, idx, delta=op.get("delta", 333.0))
                p2 = W.parties(w2)[idx]
                tmp = name + ".new"
                if p2["format"] == "text":
                    W.write_text(w2, p2, tmp)
                else:
                    W.write_nc(w2, p2, tmp)
                os.replace(tmp, name)
                self.file_digests[name] = file_digest(name)
                self.stats["fired:replace_file_while_open"] += 1
            self.emit(rec)
            return
        if kind == "rebuild":
            data, status = self.live.rebuild(self.n_inputs, self.has_clim, self.config)
            rec["status"] = status
            if data is not None:
                self.datasets.append(data)
                self.stats["fired:rebuild_on_same_inputs"] += 1
            self.emit(rec)
            return
        if kind == "req":
            self.step_req(step, op, rec)
            return
        if kind == "aux":
            # another public accessor of the dataset object called between score requests, the way verif's
            # outputs and metrics do (get_axis_values, get_fields, get_legend, ...): a perturbation of the
            # history only - its own result is logged (determinism) but carries no verdict
            data = self.datasets[op.get("ds", 0) % len(self.datasets)]
            rec["aux"] = do_aux(data, op)
            self.stats["fired:aux_call"] += 1
            self.emit(rec)
            return
        for o in self.oracles:
            if o.handle(self, step, op, rec):
                self.emit(rec)
                return
        raise ValueError("unknown op %r" % (op,))

    def step_req(self, step, op, rec):
        req = op
        data = self.datasets[op.get("ds", 0) % len(self.datasets)]
        index = self.resolve_index(req)
        rec["index"] = index
        # read-only probes
        try:
            fields = [mk_field(f) for f in req["fields"]]
            key = (tuple(fields), req["input"], mk_axis(req["axis"]), index)
            if key in data._get_scores_cache:
                self.stats["probe:request_cache_hit"] += 1
            ii = req["input"]
            if 0 <= ii < len(data._get_score_cache):
                for f in fields:
                    if f in data._get_score_cache[ii]:
                        self.stats["probe:served_from_field_cache"] += 1
        except Exception:
            pass
        self.cf.reset_fired()
        if self.pinned:
            np.random.seed(self.pin_seed)
        intr = None
        if self.pending_interrupt is not None:
            intr = LineInterrupt(self.pending_interrupt["nth"], self.pending_interrupt["exc"])
        status, arrays, raw = do_request(data, req, index, intr)
        fired = list(self.cf.fired_now)
        if intr is not None:
            if intr.where is not None:
                # stays armed until a request runs long enough to reach the n-th line
                fired.append({"file": "<interrupt:%s>" % self.pending_interrupt["exc"], "var": "line-event"})
                self.pending_interrupt = None
                self.stats["fired:interrupt_request"] += 1
                self.stats["interrupt_at:" + intr.where.split(":")[0]] += 1
                if status == "ok":
                    self.stats["interrupt_swallowed"] += 1
            else:
                self.stats["interrupt_armed_not_reached"] += 1
        live = {"status": status, "dig": [adigest(a) for a in arrays]}
        rec["live"] = live
        if fired:
            rec["fault"] = [{"file": f["file"], "var": f["var"]} for f in fired]
        self.stats["req_" + ("ok" if status == "ok" else "exit" if status.startswith("exit") else "exc")] += 1
        if status == "ok":
            if any(a.shape == (1,) and np.isnan(a[0]) for a in arrays):
                self.stats["probe:all_missing_slice"] += 1
            if len(arrays) > 1:
                self.stats["probe:multi_field"] += 1
        ref = None
        if self.want_ref:
            ref = self.reference(req, index)
            rec["ref"] = {"status": ref["status"], "dig": ref["dig"]}
            if ref["status"] != "ok" and not fired:
                self.stats["fired:fail_request"] += 1
        self.states.add(self.cache_signature())
        record = {"step": step, "req": req, "index": index, "status": status, "arrays": arrays, "ref": ref,
                  "fired": fired, "ds": op.get("ds", 0) % len(self.datasets), "dig": live["dig"],
                  "copies": [np.array(a, copy=True) for a in arrays] if self.record_arrays else None}
        if not self.record_arrays:
            pass
        self.records.append(record)
        self.emit(rec)
        for a in arrays:
            self.returned.append((step, a, adigest(a)))
        for o in self.oracles:
            o.after_request(self, step, record)
            if self.violation is not None:
                return


class Oracle(object):
    def begin(self, sim):
        pass

    def after_request(self, sim, step, record):
        pass

    def after_env(self, sim, step, op):
        pass

    def handle(self, sim, step, op, rec):
        return False

    def finish(self, sim):
        pass


def describe_req(req):
    return {"fields": req["fields"], "single": bool(req.get("single")), "input": req["input"], "axis": req["axis"],
            "index": req.get("index")}


def run_multi(sims, schedule):
    """Run one or more DataSims in one process under shared environment seams.

    `schedule` is a list of sim indices: which tenant executes its next operation.  When it is
    exhausted (or None) the remaining operations run tenant by tenant.  The run stops at the first
    violation of any tenant; the result is that of sims[0] with the others' logs appended.
    """
    warnings.simplefilter("ignore")
    old_cwd = os.getcwd()
    env = sims[0].env
    cf = sims[0].cf
    for s in sims[1:]:
        s.env = env
        s.cf = cf
    np_state = np.random.get_state()
    # the global NumPy RNG starts every run in a state that is a function of the run's seed
    from . import prng as _prng
    np.random.seed(_prng.derive_int(sims[0].spec.get("seed"), sims[0].spec.get("run"), "np-global") % (2 ** 32))
    env.install()
    cf.install()
    try:
        ready = []
        for s in sims:
            os.makedirs(s.workdir, exist_ok=True)
            os.chdir(s.workdir)
            ready.append(s.prepare())
        ptr = [0] * len(sims)

        def violated():
            return any(s.violation is not None for s in sims)

        def step(k):
            s = sims[k]
            if not ready[k] or ptr[k] >= len(s.ops):
                return
            os.chdir(s.workdir)
            s.step(ptr[k], s.ops[ptr[k]])
            ptr[k] += 1

        for k in (schedule or []):
            if violated():
                break
            if 0 <= k < len(sims):
                step(k)
        for k in range(len(sims)):
            while not violated() and ready[k] and ptr[k] < len(sims[k].ops):
                step(k)
        if not violated():
            for s in sims:
                os.chdir(s.workdir)
                s.conclude()
    finally:
        cf.uninstall()
        env.uninstall()
        np.random.set_state(np_state)
        for s in sims:
            s.release()
        os.chdir(old_cwd)
        gc.collect()
    res = sims[0].result(extra_logs=[s.log for s in sims[1:]])
    for k, s in enumerate(sims[1:], 1):
        if res["violation"] is None and s.violation is not None:
            res["violation"] = dict(s.violation, tenant=k)
        for key, val in s.stats.items():
            res["stats"][key] = res["stats"].get(key, 0) + val
        res["states"] = sorted(set(res["states"]) | s.states)
        res["steps"] += len(s.ops)
    return res
