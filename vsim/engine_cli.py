"""Engine B: the command-line session simulator.

Successive verif.driver.run(argv) calls in one interpreter on a generated world, with the
file seams (builtins.open, os.path.isfile, netCDF4.Dataset) and the environment (TZ, clock,
global RNG) owned by the simulator.  A spec is a list of explicit cases:

  order    same option groups in another order                      -> identical outcome      (C13 R1)
  config   option groups moved into --config files (+ fault)        -> identical outcome      (C13 R2)
  reject   syntactically invalid command line                       -> must be rejected       (C13 R3)
  fault    I/O fault or stored-byte damage on an input file         -> must be rejected if the
           file is unreadable / ill-formed; afterwards the undamaged command must work again (C13 R3)
  cmd      plain command; the same argv issued again later must give identical output        (C18)
  env      time-zone / clock / RNG perturbation between commands
"""
import contextlib
import gc
import hashlib
import io
import json
import locale
import os
import shutil
import subprocess
import sys
import warnings
from collections import Counter

import numpy as np

from . import seams
from . import world as W
from .engine_data import classify

PIT_METRICS = {"pitdev", "pit", "pithistslope", "pithistshape", "pithist"}


def text_wellformed(b):
    """Would a reader of the documented text format accept these bytes?  (header with a data
    column, every data row with as many columns as the header, at least one data row)."""
    enc = locale.getpreferredencoding(False)
    try:
        stream = io.TextIOWrapper(io.BytesIO(b), encoding=enc)
        lines = list(stream)
    except (UnicodeDecodeError, LookupError):
        return False
    header = None
    rows = 0
    for rowstr in lines:
        if rowstr[0] == "#":
            toks = rowstr[1:].split()
            if not toks:
                return False
            if toks[0] in ("x0:", "x1:"):
                try:
                    float(toks[1])
                except (IndexError, ValueError):
                    return False
            continue
        row = rowstr.split()
        if header is None:
            header = row
            if not any(w in ("obs", "fcst") or w[0] in "pq" for w in header):
                return False
        else:
            if len(row) != len(header):
                return False
            rows += 1
    return header is not None and rows > 0


def damaged_bytes(orig, fault):
    """Stored bytes after the fault (None = path is not a regular file any more)."""
    t = fault["type"]
    if t == "torn":
        n = len(orig)
        limit = min(n, fault["max"]) if fault.get("max") else n
        cut = int(fault["frac"] * limit)
        if cut >= n:
            cut = n - 1
        return orig[:max(cut, 0)]
    mode = fault["mode"]
    if mode == "empty":
        return b""
    if mode in ("dir", "missing"):
        return None
    if mode == "garbage":
        return bytes(((i * 37 + fault["byte"]) % 251 + (i % 5)) % 256 for i in range(max(64, min(len(orig), 400))))
    if mode == "junk_text":
        return b"hello world\nthis is not a verification file\n1 2 3\n"
    if mode == "partial_line":
        # a producer that crashed and restarted in append mode: the beginning of a line it had written before
        # (its header in every second case) sits between two complete rows - a row with too few columns
        lines = orig.split(b"\n")
        body = [i for i, l in enumerate(lines) if l.strip() and not l.startswith(b"#")]
        if len(body) < 2:
            return orig[: len(orig) // 2]
        src = lines[body[0]] if fault["byte"] % 2 == 0 else lines[body[1 + int(fault["frac"] * 997) % (len(body) - 1)]]
        toks = src.split()
        if len(toks) < 2:
            return orig[: len(orig) // 2]
        frag = b" ".join(toks[: 1 + (fault["byte"] // 2) % (len(toks) - 1)])
        at = body[1 + int(fault["frac"] * (len(body) - 1)) % (len(body) - 1)]
        return b"\n".join(lines[:at] + [frag] + lines[at:])
    if mode == "nc_nodims":
        return b"__nc_nodims__"
    if mode == "flip":
        if not orig:
            return orig
        pos = min(len(orig) - 1, int(fault["frac"] * len(orig)))
        return orig[:pos] + bytes([orig[pos] ^ (1 << (fault["byte"] % 8))]) + orig[pos + 1:]
    raise ValueError(mode)


class CliSim(object):
    def __init__(self, spec, workdir):
        self.spec = spec
        self.world = spec["world"]
        self.cases = spec["cases"]
        self.workdir = workdir
        self.pinned = spec.get("pinned", True)
        self.pin_seed = spec.get("pin_seed", 777)
        self.env = seams.Env()
        self.ff = seams.FileFaults()
        self.stats = Counter()
        self.log = []
        self.violation = None
        self.seen = {}          # argv tuple -> first outcome (C18 repeat clause)
        self._argv_objects = {}  # argv tuple -> the list object handed to driver.run (reused for repeats)
        self._ds = []

    def emit(self, rec):
        self.log.append(json.dumps(rec, sort_keys=True, default=str))

    def violate(self, step, kind, detail):
        if self.violation is None:
            self.violation = {"step": step, "kind": kind, "detail": detail}

    # ------------------------------------------------------------------ one command
    def run_cmd_contained(self, argv):
        """Run one command in a forked grandchild.  Used for commands on byte-damaged NetCDF files: the
        netCDF/HDF5 C library may abort or segfault on such input (observed: one flipped bit in a NETCDF3
        header -> SIGSEGV), which ends that command with a non-zero status but must not end the session."""
        import pickle
        r, w = os.pipe()
        pid = os.fork()
        if pid == 0:
            code = 0
            try:
                os.close(r)
                out = self.run_cmd(argv)
                with os.fdopen(w, "wb") as f:
                    pickle.dump(out, f)
            except BaseException:
                code = 3
            finally:
                os._exit(code)
        os.close(w)
        with os.fdopen(r, "rb") as f:
            data = f.read()
        _, status = os.waitpid(pid, 0)
        self.stats["commands"] += 1
        if data:
            out = pickle.loads(data)
            self.stats["cmd_" + ("ok" if out["ok"] else "exit" if out["status"].startswith("exit") else "exc")] += 1
            return out
        self.stats["cmd_crash"] += 1
        self.stats["probe:contained_crashes"] += 1
        return {"status": "crash(wait_status=%d)" % status, "ok": False, "stdout": "", "file": None, "fired": []}

    def run_cmd(self, argv, plan=None, hook=None, reuse_list=False):
        import verif.driver
        import matplotlib.pyplot as mpl
        for f in ("out.txt", "out.png"):
            if os.path.lexists(f):
                os.remove(f)
        self.ff.clear()
        if plan:
            for f in plan:
                if f["type"] == "open_error":
                    self.ff.arm_open_error(f["file"], f["nth"], f["errno"], seam=f.get("seam", "open"),
                                           persistent=bool(f.get("persistent")))
                elif f["type"] == "read_error":
                    self.ff.arm_read_error(f["file"], f["after"])
        self.ff.swap_hook = hook
        if self.pinned:
            np.random.seed(self.pin_seed)
        buf = io.StringIO()
        status = "ok"
        try:
            with contextlib.redirect_stdout(buf):
                if reuse_list:
                    # a caller that keeps one argument list and passes the same object again
                    full = self._argv_objects.setdefault(tuple(argv), ["verif"] + list(argv))
                else:
                    full = ["verif"] + list(argv)
                verif.driver.run(full)
        except (SystemExit, Exception) as e:
            status = classify(e)
        fired = list(self.ff.fired_now)
        self.ff.clear()
        out_file = None
        if os.path.isfile("out.txt"):
            with open("out.txt", "rb") as f:
                out_file = f.read().decode("utf-8", "replace")
        elif os.path.isfile("out.png"):
            try:
                import matplotlib.image
                img = matplotlib.image.imread("out.png")
                out_file = "png:%s:%s" % (img.shape, hashlib.sha256(np.ascontiguousarray(img).tobytes()).hexdigest()[:16])
            except Exception as e:
                out_file = "png-unreadable:%s" % type(e).__name__
        try:
            mpl.close("all")
        except Exception:
            pass
        stdout = buf.getvalue()
        del buf
        still = self.ff.close_datasets()
        if still:
            self.stats["probe:nc_handles_still_referenced"] += still
        self.stats["commands"] += 1
        self.stats["cmd_" + ("ok" if status == "ok" else "exit" if status.startswith("exit") else "exc")] += 1
        if status.startswith("exc"):
            self.stats["excclass:" + status] += 1
        return {"status": status, "ok": status == "ok", "stdout": stdout, "file": out_file, "fired": fired}

    @staticmethod
    def same_output(a, b):
        return a["stdout"] == b["stdout"] and a["file"] == b["file"]

    @staticmethod
    def brief(o):
        return {"status": o["status"], "stdout": o["stdout"][:300], "file": (o["file"] or "")[:200] if o["file"] else None}

    @staticmethod
    def odig(o):
        return hashlib.sha256((o["status"] + "\0" + o["stdout"] + "\0" + str(o["file"])).encode()).hexdigest()[:16]

    # ------------------------------------------------------------------ run
    def run(self):
        warnings.simplefilter("ignore")
        import matplotlib.pyplot as mpl
        old_cwd = os.getcwd()
        os.makedirs(self.workdir, exist_ok=True)
        os.chdir(self.workdir)
        np_state = np.random.get_state()
        # the global NumPy RNG starts every session in a state that is a function of the run's seed
        from . import prng as _prng
        np.random.seed(_prng.derive_int(self.spec.get("seed"), self.spec.get("run"), "np-global-cli") % (2 ** 32))
        old_show = mpl.show
        mpl.show = lambda *a, **k: None
        self.env.install()
        self.ff.install()
        try:
            self.emit({"seed": self.spec.get("seed"), "run": self.spec.get("run"), "prop": self.spec.get("prop")})
            self.names = W.materialise(self.world, ".")
            for name, text in (self.spec.get("session_configs") or {}).items():
                with open(name, "w") as f:
                    f.write(text)
            for step, case in enumerate(self.cases):
                if self.violation is not None:
                    break
                getattr(self, "case_" + case["kind"])(step, case)
            if self.violation is None and self.spec.get("fresh"):
                self.fresh_check()
        finally:
            self.ff.uninstall()
            self.env.uninstall()
            mpl.show = old_show
            np.random.set_state(np_state)
            os.chdir(old_cwd)
            gc.collect()
        digest = hashlib.sha256("\n".join(self.log).encode()).hexdigest()[:20]
        fired = Counter()
        fired.update(self.env.fired)
        fired.update(self.ff.fired)
        for k, v in self.stats.items():
            if k.startswith("fired:"):
                fired[k[6:]] += v
        return {"violation": self.violation, "digest": digest, "stats": dict(self.stats), "fired": dict(fired),
                "states": [], "log": self.log, "steps": self.stats.get("commands", 0), "sim_time": float(self.env.span)}

    # ------------------------------------------------------------------ cases
    def case_env(self, step, case):
        op = case["op"]
        if op["op"] == "tz":
            self.env.set_zone(op["zone"])
        elif op["op"] == "clock":
            self.env.jump_clock(op["delta"])
        elif op["op"] == "rng":
            np.random.seed(op["seed"] % (2 ** 32))
            if op.get("draws"):
                np.random.rand(op["draws"])
            self.stats["fired:rng_perturb"] += 1
        elif op["op"] == "envvar":
            self.env.set_envvar(op["name"], op["value"])
        self.emit({"i": step, "env": op})

    def case_order(self, step, case):
        a = self.run_cmd(case["a"])
        b = self.run_cmd(case["b"])
        self.emit({"i": step, "kind": "order", "a": self.odig(a), "b": self.odig(b)})
        self.stats["rel_order"] += 1
        if a["ok"] and b["ok"]:
            self.stats["rel_order_both_ok"] += 1
            if case.get("sub") == "override":
                self.stats["probe:override_pairs_both_ok"] += 1
        if a["ok"] != b["ok"]:
            self.violate(step, "order_dependent_outcome", {"a": case["a"], "b": case["b"], "out_a": self.brief(a), "out_b": self.brief(b)})
        elif a["ok"] and not self.same_output(a, b):
            self.violate(step, "order_dependent_output", {"a": case["a"], "b": case["b"], "out_a": self.brief(a), "out_b": self.brief(b)})

    def case_config(self, step, case):
        for name, text in case["configs"].items():
            with open(name, "w") as f:
                f.write(text)
        a = self.run_cmd(case["a"])
        fault = case.get("fault")
        b = self.run_cmd(case["b"], plan=[fault] if fault else None)
        self.emit({"i": step, "kind": "config", "a": self.odig(a), "b": self.odig(b), "fault": fault, "fired": len(b["fired"])})
        for name in case["configs"]:
            if os.path.exists(name):
                os.remove(name)
        self.stats["rel_config"] += 1
        if fault and b["fired"]:
            self.stats["probe:config_fault_fired"] += 1
            if b["ok"] and not (a["ok"] and self.same_output(a, b)):
                self.violate(step, "config_fault_ignored", {"a": case["a"], "b": case["b"], "configs": case["configs"],
                                                            "fault": fault, "out_a": self.brief(a), "out_b": self.brief(b)})
            return
        if a["ok"] and b["ok"]:
            self.stats["rel_config_both_ok"] += 1
        if a["ok"] != b["ok"]:
            self.violate(step, "config_differs_outcome", {"a": case["a"], "b": case["b"], "configs": case["configs"],
                                                          "out_a": self.brief(a), "out_b": self.brief(b)})
        elif a["ok"] and not self.same_output(a, b):
            self.violate(step, "config_differs_output", {"a": case["a"], "b": case["b"], "configs": case["configs"],
                                                         "out_a": self.brief(a), "out_b": self.brief(b)})
        elif step % 2 == 1 and self.spec.get("prop") == "C13":
            # a caller that keeps one argument list and hands the same object to driver.run twice (after S68):
            # reading --config must not change the caller's list, so the second call is the first one again
            for name, text in case["configs"].items():
                with open(name, "w") as f:
                    f.write(text)
            c1 = self.run_cmd(case["b"], reuse_list=True)
            c2 = self.run_cmd(case["b"], reuse_list=True)
            for name in case["configs"]:
                if os.path.exists(name):
                    os.remove(name)
            self.stats["rel_config_same_list_twice"] += 1
            self.emit({"i": step, "kind": "config-twice", "c1": self.odig(c1), "c2": self.odig(c2)})
            for c in (c1, c2):
                if c["ok"] != a["ok"] or (a["ok"] and not self.same_output(a, c)):
                    self.violate(step, "config_differs_output", {"a": case["a"], "b": case["b"], "configs": case["configs"],
                                                                 "sub": "same_argv_list_passed_twice",
                                                                 "out_a": self.brief(a), "out_b": self.brief(c)})
                    break

    def case_reject(self, step, case):
        for name, text in (case.get("configs") or {}).items():
            with open(name, "w") as f:
                f.write(text)
        if case.get("via_config"):
            self.stats["probe:reject_via_config"] += 1
        o = self.run_cmd(case["argv"])
        for name in (case.get("configs") or {}):
            if os.path.exists(name):
                os.remove(name)
        self.emit({"i": step, "kind": "reject", "cls": case["cls"], "o": self.odig(o)})
        self.stats["rel_reject"] += 1
        self.stats["reject:" + case["cls"]] += 1
        if o["status"].startswith("exit"):
            self.stats["rejected_by_error_message"] += 1
        elif not o["ok"]:
            self.stats["rejected_by_traceback"] += 1
        if o["ok"]:
            self.violate(step, "not_rejected", {"cls": case["cls"], "bad": case["bad"], "argv": case["argv"], "out": self.brief(o)})

    def case_fault(self, step, case):
        argv = case["argv"]
        fault = case["fault"]
        base = self.run_cmd(argv)
        if not base["ok"]:
            self.stats["fault_base_not_ok"] += 1
            self.emit({"i": step, "kind": "fault", "skipped": base["status"]})
            return
        name = fault["file"]
        expect_reject = None
        orig = None
        if fault["type"] in ("open_error", "read_error"):
            o = self.run_cmd(argv, plan=[fault])
            if o["fired"]:
                if fault.get("persistent"):
                    # the file cannot be opened at all: it must be rejected whatever the order of opens
                    expect_reject = True
                else:
                    # a transient error (one open, or a read error part-way) may legitimately be absorbed by a
                    # probe or a second read; what it must never do is change the output silently
                    self.stats["probe:transient_io_fired"] += 1
                    if o["ok"] and not self.same_output(o, base):
                        self.emit({"i": step, "kind": "fault", "fault": fault, "o": self.odig(o)})
                        self.violate(step, "fault_changed_output", {"argv": argv, "fault": fault, "out": self.brief(o),
                                                                    "base": self.brief(base)})
                        return
                    if not o["ok"]:
                        self.stats["transient_io_rejected"] += 1
                    else:
                        self.stats["transient_io_absorbed"] += 1
        elif fault["type"] == "swap":
            with open(name, "rb") as f:
                orig = f.read()
            with open(fault["with"], "rb") as f:
                other = f.read()
            # reference: the command on the new bytes throughout
            with open(name, "wb") as f:
                f.write(other)
            new_ref = self.run_cmd(argv)
            with open(name, "wb") as f:
                f.write(orig)
            state = {"done": False}

            def hook(base, nth, _name=name, _k=fault["at_open"], _other=other, _state=state, _ff=self.ff):
                if base == _name and nth == _k and not _state["done"]:
                    _state["done"] = True
                    with _ff._orig_open(_name, "wb") as fh:
                        fh.write(_other)
            o = self.run_cmd(argv, hook=hook)
            with open(name, "wb") as f:
                f.write(orig)
            self.emit({"i": step, "kind": "fault", "fault": fault, "swapped": state["done"], "o": self.odig(o)})
            self.stats["rel_fault"] += 1
            if state["done"]:
                self.stats["fired:swap_between_opens"] += 1
                if o["ok"] and not (self.same_output(o, base) or (new_ref["ok"] and self.same_output(o, new_ref))):
                    self.violate(step, "swap_mixed_result", {"argv": argv, "fault": fault, "out": self.brief(o),
                                                             "old": self.brief(base), "new": self.brief(new_ref)})
                    return
            again = self.run_cmd(argv)
            self.stats["probe:recovery_checks"] += 1
            if not again["ok"] or not self.same_output(again, base):
                self.violate(step, "no_recovery_after_fault", {"argv": argv, "fault": fault, "base": self.brief(base), "again": self.brief(again)})
            return
        else:
            with open(name, "rb") as f:
                orig = f.read()
            party = [p for p in W.parties(self.world) if p["name"] == name][0]
            new = damaged_bytes(orig, fault)
            if new == b"__nc_nodims__":
                # a NetCDF file without one of the required dimensions (renamed), variables kept
                # (done on a private copy that then replaces the path: the system under test may still
                # hold the original open)
                tmp = name + ".dmg"
                with open(tmp, "wb") as f:
                    f.write(orig)
                ds = self.ff._orig_ds(tmp, "a")
                try:
                    ds.renameDimension("time" if int(fault["frac"] * 2) == 0 else "leadtime", "dim_renamed")
                finally:
                    ds.close()
                with open(tmp, "rb") as f:
                    new = f.read()
                os.replace(tmp, name)
            else:
                os.remove(name)
                if new is None:
                    if fault.get("mode") == "dir":
                        os.mkdir(name)
                else:
                    with open(name, "wb") as f:
                        f.write(new)
            kind = fault["type"] + (":" + fault["mode"] if fault["type"] == "corrupt" else "")
            self.stats["fired:" + kind] += 1
            if new is None:
                expect_reject = True
            elif party["format"] == "text":
                if new == orig:
                    expect_reject = None
                else:
                    expect_reject = True if not text_wellformed(new) else None
                    if expect_reject is None:
                        self.stats["damaged_but_wellformed"] += 1
            else:
                if fault["type"] == "torn" or fault.get("mode") in ("empty", "garbage", "junk_text", "nc_nodims"):
                    expect_reject = True
                else:
                    expect_reject = None
                    self.stats["nc_bitflip_no_expectation"] += 1
            if party["format"] == "nc" and new is not None and fault.get("mode") != "nc_nodims":
                o = self.run_cmd_contained(argv)
            else:
                o = self.run_cmd(argv)
            # repair the store
            if os.path.isdir(name):
                os.rmdir(name)
            elif os.path.lexists(name):
                os.remove(name)
            with open(name, "wb") as f:
                f.write(orig)
        self.emit({"i": step, "kind": "fault", "fault": fault, "expect_reject": expect_reject, "o": self.odig(o)})
        self.stats["rel_fault"] += 1
        if expect_reject:
            self.stats["probe:fault_expect_reject"] += 1
            if o["status"].startswith("exit"):
                self.stats["rejected_by_error_message"] += 1
            elif o["status"].startswith("crash"):
                self.stats["rejected_by_crash"] += 1
            elif not o["ok"]:
                self.stats["rejected_by_traceback"] += 1
            if o["ok"]:
                self.violate(step, "fault_not_rejected", {"argv": argv, "fault": fault, "out": self.brief(o), "base": self.brief(base)})
                return
        # liveness once the fault is gone: the same command works again, identically
        again = self.run_cmd(argv)
        self.stats["probe:recovery_checks"] += 1
        if not again["ok"] or not self.same_output(again, base):
            self.violate(step, "no_recovery_after_fault", {"argv": argv, "fault": fault, "base": self.brief(base), "again": self.brief(again)})

    def case_cmd(self, step, case):
        argv = case["argv"]
        o = self.run_cmd(argv, reuse_list=bool(self.spec.get("reuse_argv")))
        key = tuple(argv)
        self.emit({"i": step, "kind": "cmd", "o": self.odig(o)})
        if key in self.seen:
            first_step, first = self.seen[key]
            self.stats["rel_repeat"] += 1
            if o["file"] and str(o["file"]).startswith("png:"):
                self.stats["probe:png_repeat"] += 1
            if first["ok"] and o["ok"]:
                self.stats["rel_repeat_both_ok"] += 1
            if first["status"] != o["status"] or not self.same_output(first, o):
                self.violate(step, "repeat_differs", {"argv": argv, "first_step": first_step, "first": self.brief(first), "again": self.brief(o)})
        else:
            self.seen[key] = (step, o)

    # ------------------------------------------------------------------ fresh interpreters
    def fresh_run(self, argv, hashseed):
        code = ("import sys, os, warnings; warnings.simplefilter('ignore'); sys.path.insert(0, %r); "
                "import matplotlib; matplotlib.use('Agg'); import verif.driver\n"
                "try:\n    verif.driver.run(['verif'] + %r)\n    print('STATUS ok')\n"
                "except SystemExit as e:\n    print('STATUS exit(%%s)' %% (e.code,))\n"
                "except Exception as e:\n    print('STATUS exc(%%s)' %% type(e).__name__)\n") % (
                    os.environ.get("VERIF_REPO", "/repo"), list(argv))
        env = dict(os.environ)
        env["PYTHONHASHSEED"] = str(hashseed)
        env["TZ"] = "UTC"
        env["MPLBACKEND"] = "Agg"
        p = subprocess.run([sys.executable, "-c", code], env=env, stdout=subprocess.PIPE, stderr=subprocess.PIPE,
                           timeout=300, cwd=os.getcwd())
        out = p.stdout.decode("utf-8", "replace")
        lines = out.splitlines(keepends=True)
        status = "crash(%d)" % p.returncode
        if lines and lines[-1].startswith("STATUS "):
            status = lines[-1][7:].strip()
            out = "".join(lines[:-1])
        return {"status": status, "ok": status == "ok", "stdout": out, "file": None, "fired": []}

    def fresh_check(self):
        cands = [(k, v) for k, v in self.seen.items() if "-f" not in k]
        if not cands:
            return
        key, (step0, first) = cands[0]
        a = self.fresh_run(list(key), 1)
        b = self.fresh_run(list(key), 987654)
        self.stats["fired:fresh_process"] += 2
        self.emit({"fresh": self.odig(a), "fresh2": self.odig(b)})
        if a["status"] != b["status"] or a["stdout"] != b["stdout"]:
            self.violate(len(self.cases), "fresh_process_differs", {"argv": list(key), "a": self.brief(a), "b": self.brief(b)})
        elif a["status"] != first["status"] or a["stdout"] != first["stdout"]:
            self.violate(len(self.cases), "fresh_vs_session_differs", {"argv": list(key), "fresh": self.brief(a), "session": self.brief(first)})


def metric_of(argv):
    for i, t in enumerate(argv):
        if t == "-m" and i + 1 < len(argv):
            return argv[i + 1]
    return None


def uses_pit(argv):
    m = metric_of(argv)
    if m in PIT_METRICS:
        return True
    for i, t in enumerate(argv):
        if t in ("-obs", "-fcst") and i + 1 < len(argv) and argv[i + 1] == "pit":
            return True
    return False
