"""One integer decides everything.

Every random choice of a run is drawn from a `random.Random` obtained here from
(VERIF_SEED, engine/property, run index, stream label).  Independent labelled
sub-streams keep the world stable when the operation list is minimised.
Nothing in this module reads a clock or the process environment.
"""
import hashlib
import random


def derive_int(*parts):
    h = hashlib.sha256(":".join(str(p) for p in parts).encode()).digest()
    return int.from_bytes(h[:8], "big")


def stream(*parts):
    return random.Random(derive_int(*parts))


def run_seed(verif_seed, prop, run):
    """Seed of run `run` of property/engine `prop` under VERIF_SEED."""
    return derive_int(verif_seed, prop, run)
