"""Seeded search over simulated runs: parallel execution, determinism self-test, minimisation,
replay files, known-findings matching and evidence.

Exit codes: 0 property held on everything explored (possibly KNOWN-FINDING lines),
1 VIOLATION (not listed in known_findings.json), 2 harness error / time-out (never 0).
"""
import faulthandler
import hashlib
import json
import multiprocessing
import os
import shutil
import subprocess
import sys
import tempfile
import time
import traceback
from collections import Counter
from concurrent.futures import ProcessPoolExecutor, as_completed

HERE = os.path.dirname(os.path.abspath(__file__))
ROOT = os.path.dirname(HERE)
REPO = os.environ.get("VERIF_REPO", "/repo")
PYTHON = sys.executable


def scratch_base():
    for d in ("/dev/shm", os.environ.get("TMPDIR") or tempfile.gettempdir()):
        if os.path.isdir(d) and os.access(d, os.W_OK):
            return tempfile.mkdtemp(prefix="vsim-", dir=d)
    return tempfile.mkdtemp(prefix="vsim-")


def assert_repo():
    import verif
    p = os.path.realpath(verif.__file__)
    if not p.startswith(os.path.realpath(REPO) + os.sep):
        raise RuntimeError("verif imported from %s, not from %s" % (p, REPO))


def run_isolated(fn, *args):
    """Execute fn(*args) in a forked child and return its (pickled) result.

    Every simulated run starts from the pristine interpreter state of the worker (which itself never
    executes code of the system under test), so process-global state of verif or its dependencies
    (module-level caches, class attributes, default-argument instances, pyplot state, lru_caches)
    cannot leak from one run into the next: one seed is one exactly repeatable execution whatever
    the batch layout.  State leaking *inside* a run is what the run explores."""
    import pickle
    r, w = os.pipe()
    pid = os.fork()
    if pid == 0:
        code = 0
        try:
            os.close(r)
            try:
                payload = pickle.dumps(("ok", fn(*args)), protocol=pickle.HIGHEST_PROTOCOL)
            except BaseException:
                payload = pickle.dumps(("error", traceback.format_exc()))
                code = 3
            with os.fdopen(w, "wb") as f:
                f.write(payload)
        finally:
            os._exit(code)
    os.close(w)
    chunks = []
    with os.fdopen(r, "rb") as f:
        while True:
            b = f.read(1 << 20)
            if not b:
                break
            chunks.append(b)
    _, status = os.waitpid(pid, 0)
    data = b"".join(chunks)
    if not data:
        raise ChildDied(status)
    kind, val = pickle.loads(data)
    if kind != "ok":
        raise RuntimeError("isolated run raised:\n" + val)
    return val


class ChildDied(RuntimeError):
    def __init__(self, status):
        RuntimeError.__init__(self, "isolated run died without a result (wait status %d)" % status)
        self.status = status


def crash_result(e):
    sig = "process_crash wait_status=%d" % e.status
    return {"violation": {"step": None, "kind": "process_crash", "detail": {"wait_status": e.status}, "signature": sig},
            "digest": "crash-%d" % e.status, "stats": {"process_crash": 1}, "fired": {}, "states": [], "log": [],
            "steps": 0, "nontrivial": False}


def execute_isolated(prop, spec, workdir):
    """One complete evaluation of a spec: execution in a pristine forked child and, when the property asks
    for it (unpinned RNG runs that violated), a second pinned execution in another pristine child."""
    from . import props
    P = props.PROPS[prop]
    try:
        res = run_isolated(P["execute"], spec, workdir)
        if res.get("rerun_pinned") and P.get("classify"):
            res2 = run_isolated(P["execute"], dict(spec, pinned=True, fresh=False, _classifying=True), workdir + "-p")
            res = P["classify"](spec, res, res2)
        return res
    except ChildDied as e:
        return crash_result(e)


def _worker_batch(args):
    prop, seed, tier, runs, base, keep_specs = args
    faulthandler.dump_traceback_later(900, exit=True)
    from . import props
    P = props.PROPS[prop]
    out = []
    wd = os.path.join(base, "w%d" % os.getpid())
    for run in runs:
        spec = P["gen"](seed, run, tier)
        # a simulated process that crashes (abort/segfault inside a C library, os._exit ...) is an outcome of
        # the run, reported like any other violation and replayable (see execute_isolated)
        res = execute_isolated(prop, spec, os.path.join(wd, "r%d" % run))
        c = {"run": run, "digest": res["digest"], "violation": res.get("violation"), "stats": res.get("stats", {}),
             "fired": res.get("fired", {}), "states": res.get("states", []), "nontrivial": res.get("nontrivial", False),
             "ilv": res.get("ilv"), "steps": res.get("steps", 0), "mode": res.get("mode"),
             "sim_time": res.get("sim_time", 0.0), "sets": res.get("sets", {})}
        if res.get("violation") is not None or run in keep_specs:
            c["spec"] = spec
        if run in keep_specs:
            c["log_head"] = res.get("log", [])[:12]
        out.append(c)
    faulthandler.cancel_dump_traceback_later()
    shutil.rmtree(wd, ignore_errors=True)
    return out


def run_many(prop, seed, tier, runs, base, workers, keep_specs=(), deadline=None):
    """Execute the given run indices on `workers` processes; returns compact results sorted by run."""
    runs = list(runs)
    chunk = max(1, min(12, len(runs) // (workers * 4) or 1))
    batches = [runs[i:i + chunk] for i in range(0, len(runs), chunk)]
    results = []
    skipped = 0
    if workers <= 1:
        for b in batches:
            if deadline and time.time() > deadline:
                skipped += len(b)
                continue
            results.extend(_worker_batch((prop, seed, tier, b, base, set(keep_specs))))
        return sorted(results, key=lambda r: r["run"]), skipped
    ctx = multiprocessing.get_context("fork")
    with ProcessPoolExecutor(max_workers=workers, mp_context=ctx) as ex:
        futs = {}
        pending = list(batches)
        # submit lazily so that a deadline can stop the flow
        inflight = set()
        while pending or inflight:
            while pending and len(inflight) < workers * 2:
                if deadline and time.time() > deadline:
                    skipped += sum(len(b) for b in pending)
                    pending = []
                    break
                b = pending.pop(0)
                f = ex.submit(_worker_batch, (prop, seed, tier, b, base, set(keep_specs)))
                inflight.add(f)
            if not inflight:
                break
            done = next(as_completed(inflight, timeout=900))
            inflight.discard(done)
            results.extend(done.result())
    return sorted(results, key=lambda r: r["run"]), skipped


def fresh_digests(prop, seed, tier, runs, hashseed):
    """Digests of the given runs computed in a fresh interpreter under another PYTHONHASHSEED."""
    env = dict(os.environ)
    env["PYTHONHASHSEED"] = str(hashseed)
    env["VERIF_SIM"] = "1"
    env["VERIF_NO_REEXEC"] = "1"
    cmd = [PYTHON, os.path.join(ROOT, "check"), "digests", prop, "--tier", tier, "--seed", str(seed), "--runs",
           ",".join(str(r) for r in runs)]
    p = subprocess.run(cmd, env=env, stdout=subprocess.PIPE, stderr=subprocess.PIPE, timeout=900, cwd=ROOT)
    if p.returncode != 0:
        raise RuntimeError("fresh interpreter failed: %s" % p.stderr.decode()[-2000:])
    for line in p.stdout.decode().splitlines():
        if line.startswith("DIGESTS "):
            return json.loads(line[8:])
    raise RuntimeError("fresh interpreter printed no digests")


def determinism_selftest(prop, seed, tier, base, workers, n):
    """Same seeds twice in different worker layouts and in a fresh interpreter under another hash seed."""
    runs = list(range(n))
    a, _ = run_many(prop, seed, tier, runs, base, workers)
    b, _ = run_many(prop, seed, tier, list(reversed(runs)), base, 1 if workers > 1 else 1)
    da = {r["run"]: r["digest"] for r in a}
    db = {r["run"]: r["digest"] for r in b}
    bad = [r for r in runs if da.get(r) != db.get(r)]
    sub = runs[:max(4, n // 4)]
    dc = fresh_digests(prop, seed, tier, sub, 12345)
    # runs that are repeatable under one hash seed but differ under another: the simulated system's
    # behaviour depends on PYTHONHASHSEED (set/dict iteration order) - not a harness problem
    hash_bad = [r for r in sub if da.get(r) != dc.get(str(r)) and r not in bad]
    return {"seeds": n, "fresh_interpreter_seeds": len(sub), "worker_layouts": [workers, 1],
            "hashseeds": [os.environ.get("PYTHONHASHSEED"), "12345"], "mismatches": sorted(set(bad)),
            "hashseed_mismatches": sorted(hash_bad)}


def load_known():
    p = os.path.join(ROOT, "known_findings.json")
    if not os.path.exists(p):
        return []
    with open(p) as f:
        return json.load(f).get("findings", [])


def replay_in_fresh_process(path):
    env = dict(os.environ)
    env["VERIF_SIM"] = "1"
    p = subprocess.run([PYTHON, os.path.join(ROOT, "check"), "replay", path], env=env, stdout=subprocess.PIPE,
                       stderr=subprocess.PIPE, timeout=900, cwd=ROOT)
    return p.returncode, p.stdout.decode()


def write_evidence(prop, tier, seed, coverage, wall, violations, assumptions):
    evdir = os.environ.get("VERIF_EVIDENCE_DIR") or os.path.join(ROOT, "evidence")
    os.makedirs(evdir, exist_ok=True)
    ev = {"property_id": prop, "tier": tier, "seed": seed, "level": "exploration", "coverage": coverage,
          "assumptions": assumptions, "wall_s": round(wall, 2), "violations": violations}
    tmp = os.path.join(evdir, "%s.json.tmp" % prop)
    with open(tmp, "w") as f:
        json.dump(ev, f, indent=1, sort_keys=True, default=str)
    os.replace(tmp, os.path.join(evdir, "%s.json" % prop))


ASSUMPTIONS = [
    "verif is imported from /repo's working tree (asserted at start); NumPy/SciPy/matplotlib/netCDF4 of /venv are trusted",
    "faults for NetCDF inputs are injected at the Python seam (verif.util.clean / netCDF4.Dataset / builtins.open) and on stored bytes, not inside the netCDF C library",
    "sampling, not enumeration: a clean batch is evidence about the explored histories only",
    "the reference model is verif's own code run on a freshly built dataset with a single request (C18) or an independent integer-arithmetic model (C11); ground truth for C01 comes from the generated world tables",
]


def main_check(prop, tier, seed, n_runs=None, workers=None, time_cap=None):
    from . import props
    from . import minimise as M
    t0 = time.time()
    assert_repo()
    P = props.PROPS[prop]
    workers = workers or min(16, os.cpu_count() or 4)
    n_runs = n_runs or P["runs"][tier]
    time_cap = time_cap or (P.get("cap", {}).get(tier) or (240 if tier == "quick" else 3300))
    base = scratch_base()
    print("VERIF_SEED=%d property=%s tier=%s runs=%d workers=%d" % (seed, prop, tier, n_runs, workers))
    sys.stdout.flush()
    try:
        # 1. determinism gate
        nself = P.get("selftest", {}).get(tier) or (24 if tier == "quick" else 128)
        st = determinism_selftest(prop, seed, tier, base, workers, nself)
        if st["mismatches"]:
            print("HARNESS-ERROR nondeterministic simulator: runs %s differ between executions" % st["mismatches"][:10])
            return 2
        if st["hashseed_mismatches"]:
            run = st["hashseed_mismatches"][0]
            if prop == "C18":
                # repeating the same session in another interpreter gives a different event log
                repdir = os.environ.get("VERIF_REPLAY_DIR") or os.path.join(ROOT, "replays")
                os.makedirs(repdir, exist_ok=True)
                path = os.path.join(repdir, "%s-%d-%d-hashseed.json" % (prop, seed, run))
                with open(path, "w") as f:
                    json.dump({"property": prop, "kind": "hashseed", "seed": seed, "run": run, "tier": tier,
                               "hashseeds": st["hashseeds"], "signature": "hashseed_dependent_result",
                               "spec": P["gen"](seed, run, tier)}, f, indent=1, default=str)
                print("VIOLATION property=%s replay=%s" % (prop, path))
                print("  signature: hashseed_dependent_result   runs: %s" % st["hashseed_mismatches"][:8])
                write_evidence(prop, tier, seed, {"evaluations": nself, "distinct_nontrivial": 2, "rule": P["rule"],
                                                  "samples": [{"run": run}], "determinism_selftest": st},
                               time.time() - t0, 1, ASSUMPTIONS)
                return 1
            print("HARNESS-ERROR results of runs %s depend on PYTHONHASHSEED (that is a C18 matter; this check cannot "
                  "be trusted on such a tree)" % st["hashseed_mismatches"][:10])
            return 2
        # 2. the search
        keep = {0, 1, 2}
        results, skipped = run_many(prop, seed, tier, range(n_runs), base, workers, keep_specs=keep,
                                    deadline=t0 + time_cap)
        wall_search = time.time() - t0
        # 3. aggregate
        stats, fired = Counter(), Counter()
        states, ilv = set(), set()
        digests_nt = set()
        steps = 0
        modes = Counter()
        sim_time = 0.0
        named_sets = {}
        for r in results:
            for name, vals in (r.get("sets") or {}).items():
                named_sets.setdefault(name, set()).update(vals)
            stats.update(r["stats"])
            fired.update(r["fired"])
            states.update(r["states"])
            if r.get("ilv"):
                ilv.add(r["ilv"])
            if r["nontrivial"]:
                digests_nt.add(r["digest"])
            steps += r["steps"]
            modes[r.get("mode")] += 1
            sim_time += r.get("sim_time", 0.0)
        viol = [r for r in results if r["violation"] is not None]
        # 4. violations: group by signature, minimise, replay, match known findings
        known = [k for k in load_known() if k.get("property") == prop and k.get("status") == "known"]
        by_sig = {}
        for r in viol:
            by_sig.setdefault(r["violation"]["signature"], []).append(r)
        exit_code = 0
        reported = []
        repdir = os.environ.get("VERIF_REPLAY_DIR") or os.path.join(ROOT, "replays")
        os.makedirs(repdir, exist_ok=True)
        known_sigs = set(k.get("signature") for k in known)
        # announce at once: should the process be stopped during minimisation, the verdict and an
        # (unminimised but complete) replay file are already there
        for sig, rs in sorted(by_sig.items()):
            if sig in known_sigs:
                continue
            early = os.path.join(repdir, "%s-%d-%d.json" % (prop, seed, rs[0]["run"]))
            with open(early, "w") as f:
                json.dump({"property": prop, "engine": P["engine"], "seed": seed, "run": rs[0]["run"], "signature": sig,
                           "violation": rs[0]["violation"], "digest": rs[0]["digest"], "spec": rs[0]["spec"],
                           "minimised": False, "count_in_batch": len(rs)}, f, indent=1, default=str)
        if any(sig not in known_sigs for sig in by_sig):
            print("violations found in %d runs (%d distinct signatures); minimising ..." % (len(viol), len(by_sig)))
            sys.stdout.flush()
        t_min0 = time.time()
        min_total = 170 if tier == "quick" else 900       # seconds for all minimisations together
        for nsig, (sig, rs) in enumerate(sorted(by_sig.items(), key=lambda kv: (kv[0] in known_sigs, kv[0]))):
            r = rs[0]
            iso = lambda spec, wd, _p=prop: execute_isolated(_p, spec, wd)
            # full minimisation budget for the first distinct violations, a small one for the rest
            left = max(5.0, min_total - (time.time() - t_min0))
            per = (70 if tier == "quick" else 150) if nsig < 2 else (15 if tier == "quick" else 40)
            m = M.Minimiser(iso, os.path.join(base, "min"), budget=P.get("min_budget", 250) if nsig < 2 else 40,
                            seconds=min(per, left))
            intermittent = None
            res0 = None
            for attempt in range(5):
                cand = iso(r["spec"], os.path.join(base, "min0"))
                if cand.get("violation") is not None and cand["violation"].get("signature") == sig:
                    res0 = cand
                    break
                intermittent = attempt + 1
            if res0 is None or intermittent:
                # The harness is deterministic (gate above), yet the same spec does not violate every time: the
                # system under test itself behaves differently from execution to execution (uninitialised
                # memory, address-based hashes, ...).  That is reported, not hidden; it cannot be minimised
                # or replayed *exactly*, so the replay file says so and replay tries several times.
                path = os.path.join(repdir, "%s-%d-%d-intermittent.json" % (prop, seed, r["run"]))
                with open(path, "w") as f:
                    json.dump({"property": prop, "engine": P["engine"], "seed": seed, "run": r["run"], "signature": sig,
                               "violation": r["violation"], "digest": r["digest"], "spec": r["spec"], "intermittent": True,
                               "reproduced_after_attempts": intermittent if res0 is not None else None,
                               "count_in_batch": len(rs)}, f, indent=1, default=str)
                print("VIOLATION property=%s replay=%s" % (prop, path))
                print("  signature: %s   runs: %s" % (sig, [x["run"] for x in rs[:8]]))
                print("  INTERMITTENT: the identical spec %s; the simulated system is nondeterministic beyond the seams "
                      "(replay re-executes up to 8 times)" % ("violated again only at attempt %d" % (intermittent + 1) if res0 is not None
                                                              else "did not violate again in 5 re-executions"))
                exit_code = 1
                reported.append({"signature": sig, "known": False, "count": len(rs), "replay": path, "intermittent": True})
                continue
            spec_min, res_min = m.minimise(r["spec"], res0)
            is_known = any(k.get("signature") == sig for k in known)
            path = os.path.join(repdir, "%s-%d-%d%s.json" % (prop, seed, r["run"], "-known" if is_known else ""))
            with open(path, "w") as f:
                json.dump({"property": prop, "engine": P["engine"], "seed": seed, "run": r["run"], "signature": sig,
                           "violation": res_min["violation"], "digest": res_min["digest"], "spec": spec_min,
                           "original_ops": len(r["spec"].get("ops", r["spec"].get("cases", []))),
                           "minimised_ops": len(spec_min.get("ops", spec_min.get("cases", []))),
                           "count_in_batch": len(rs)}, f, indent=1, default=str)
            rc, out = replay_in_fresh_process(path)
            if rc != 1 or "signature=" + sig not in out:
                # minimised spec flaky? fall back to the unminimised one before giving up
                with open(path, "w") as f:
                    json.dump({"property": prop, "engine": P["engine"], "seed": seed, "run": r["run"], "signature": sig,
                               "violation": res0["violation"], "digest": res0["digest"], "spec": r["spec"],
                               "original_ops": len(r["spec"].get("ops", r["spec"].get("cases", []))),
                               "minimised_ops": len(r["spec"].get("ops", r["spec"].get("cases", []))),
                               "count_in_batch": len(rs), "intermittent": True}, f, indent=1, default=str)
                rc, out = replay_in_fresh_process(path)
            if rc != 1 or "signature=" + sig not in out:
                print("HARNESS-ERROR minimised replay %s did not reproduce in a fresh process (rc=%s)" % (path, rc))
                print(out[-1500:])
                return 2
            if is_known:
                print("KNOWN-FINDING: property=%s %s (seen %d times; replay=%s)" % (prop, sig, len(rs), path))
            else:
                print("VIOLATION property=%s replay=%s" % (prop, path))
                print("  signature: %s   runs: %s" % (sig, [x["run"] for x in rs[:8]]))
                print("  detail: %s" % json.dumps(res_min["violation"].get("detail"), default=str)[:800])
                exit_code = 1
            reported.append({"signature": sig, "known": is_known, "count": len(rs), "replay": path})
        # 4b. committed known findings are replayed on every run, so that each is reported
        #     (KNOWN-FINDING) deterministically and noticed when it stops reproducing
        for k in known:
            if not k.get("replay") or any(x["signature"] == k["signature"] for x in reported):
                continue
            kp = os.path.join(ROOT, k["replay"])
            with open(kp) as f:
                rep = json.load(f)
            kres = execute_isolated(prop, rep["spec"], os.path.join(base, "known"))
            kv = kres.get("violation")
            if kv is not None and kv.get("signature") == k["signature"]:
                print("KNOWN-FINDING: property=%s %s (committed replay %s)" % (prop, k["signature"], k["replay"]))
                reported.append({"signature": k["signature"], "known": True, "count": 0, "replay": kp})
            elif kv is not None:
                # the committed scenario now fails differently: that is a new violation
                print("VIOLATION property=%s replay=%s" % (prop, kp))
                print("  signature: %s (committed known-finding scenario now fails differently)" % kv.get("signature"))
                exit_code = 1
                reported.append({"signature": kv.get("signature"), "known": False, "count": 0, "replay": kp})
            else:
                print("NOTE: known finding '%s' no longer reproduces on this tree" % k["signature"])
        wall = time.time() - t0
        # 5. evidence
        samples = []
        for r in results:
            if "spec" in r and r["run"] in keep:
                sp = r["spec"]
                samples.append({"run": r["run"], "digest": r["digest"],
                                "world": summarise_world(sp.get("world")) if sp.get("world") else sp.get("summary"),
                                "config": sp.get("config"), "ops": (sp.get("ops") or sp.get("cases") or [])[:10],
                                "pre_ops": sp.get("pre_ops"), "log_head": r.get("log_head")})
        zero_probes = [p for p in P.get("expected_probes", []) if not stats.get(p) and not fired.get(p)]
        coverage = {
            "evaluations": len(results),
            "distinct_nontrivial": len(digests_nt),
            "rule": P["rule"],
            "samples": samples[:3],
            "steps_executed": steps,
            "runs_skipped_by_time_cap": skipped,
            "runs_per_hour": int(len(results) / max(wall_search, 1e-6) * 3600),
            "seeds_per_hour": int(len(results) / max(wall_search, 1e-6) * 3600),
            "simulated_time_s": sim_time,
            "fault_kinds_fired": dict(fired),
            "probes": {k: v for k, v in stats.items() if k.startswith("probe:")},
            "outcomes": {k: v for k, v in stats.items() if not k.startswith("probe:") and not k.startswith("fired:")},
            "probes_stuck_at_zero": zero_probes,
            "distinct_interleavings": len(ilv),
            "distinct_other": {name: len(v) for name, v in named_sets.items()},
            "distinct_abstract_states": len(states),
            "modes": dict(modes),
            "determinism_selftest": st,
            "violations_reported": reported,
            "components": P.get("components", COMPONENTS),
            "workers": workers,
            "exhaustive": False,
        }
        write_evidence(prop, tier, seed, coverage, wall, sum(1 for x in reported if not x["known"]), ASSUMPTIONS)
        for p in zero_probes:
            print("WARNING probe stuck at zero: %s" % p)
        print("runs=%d nontrivial_distinct=%d steps=%d interleavings=%d states=%d faults=%s wall=%.1fs" % (
            len(results), len(digests_nt), steps, len(ilv), len(states), dict(fired), wall))
        if len(results) == 0:
            print("HARNESS-ERROR no runs executed")
            return 2
        return exit_code
    finally:
        shutil.rmtree(base, ignore_errors=True)


COMPONENTS = {
    "real": ["verif/*.py from /repo working tree (data, input, field, axis, util, metric, driver, output)",
             "numpy, scipy, matplotlib (Agg), netCDF4 C library on tmpfs files", "CPython file objects"],
    "stubbed_or_wrapped": ["verif.util.clean (pass-through + transient read faults)",
                           "builtins.open / os.path.isfile / netCDF4.Dataset (pass-through + fault plan, engine B)",
                           "time.time (simulated clock)", "TZ/tzset (simulated zone)", "numpy global RNG state (seeded/perturbed)",
                           "sys.stdout (captured)", "matplotlib.pyplot.show (no-op)"],
}


def summarise_world(w):
    from . import world as W
    return {"times": w["universe"]["times"], "leadtimes": w["universe"]["leadtimes"],
            "locations": [l["id"] for l in w["universe"]["locations"]], "variable": w["variable"],
            "parties": [{"name": p["name"], "format": p["format"], "dims": [len(p["times"]), len(p["leadtimes"]), len(p["locations"])],
                         "fields": sorted(p["fields"]), "miss": p["miss"]} for p in W.parties(w)]}


def main_replay(path):
    from . import props
    assert_repo()
    with open(path) as f:
        rep = json.load(f)
    prop = rep["property"]
    P = props.PROPS[prop]
    if rep.get("kind") == "hashseed":
        d = [fresh_digests(prop, rep["seed"], rep["tier"], [rep["run"]], hs).get(str(rep["run"])) for hs in (0, 12345)]
        if d[0] != d[1]:
            print("VIOLATION property=%s replay=%s" % (prop, path))
            print("  signature=hashseed_dependent_result digests under PYTHONHASHSEED 0 / 12345: %s / %s" % tuple(d))
            return 1
        print("replay: no violation (same digest %s under both hash seeds)" % d[0])
        return 0
    base = scratch_base()
    try:
        tries = 8 if rep.get("intermittent") else 1
        for attempt in range(tries):
            res = execute_isolated(prop, rep["spec"], os.path.join(base, "replay%d" % attempt))
            if res.get("violation") is not None and res["violation"].get("signature") == rep.get("signature"):
                break
    finally:
        shutil.rmtree(base, ignore_errors=True)
    v = res.get("violation")
    if v is None:
        print("replay: no violation (digest %s, recorded %s)" % (res["digest"], rep.get("digest")))
        return 0
    same = v.get("signature") == rep.get("signature") and v.get("step") == rep["violation"].get("step")
    print("VIOLATION property=%s replay=%s" % (prop, path))
    print("  signature=%s step=%s digest=%s %s" % (v.get("signature"), v.get("step"), res["digest"],
                                                    "(identical to recorded)" if same and res["digest"] == rep.get("digest") else "(DIFFERS from recorded: %s step %s %s)" % (rep.get("signature"), rep["violation"].get("step"), rep.get("digest"))))
    print("  detail: %s" % json.dumps(v.get("detail"), default=str)[:1500])
    return 1


def main_digests(prop, tier, seed, runs):
    from . import props
    assert_repo()
    base = scratch_base()
    try:
        res, _ = run_many(prop, seed, tier, runs, base, 1)
    finally:
        shutil.rmtree(base, ignore_errors=True)
    print("DIGESTS " + json.dumps({str(r["run"]): r["digest"] for r in res}))
    return 0
