"""Minimisation of a failing spec before it is reported.

Keeps a candidate only if executing it yields a violation with the *same signature*.
Passes: truncate after the violating step, ddmin over the operation list, drop
pre-ops, simplify requests, reset configuration options, shrink the world (drop universe
entries, drop field columns, drop unreferenced inputs, NetCDF -> text).  Bounded by an
execution budget.
"""
import copy
import json


class Minimiser(object):
    def __init__(self, execute, workdir, budget=250, seconds=120):
        import time
        self.execute = execute
        self.workdir = workdir
        self.budget = budget
        self.used = 0
        self.deadline = time.time() + seconds     # wall-clock bound on the whole minimisation (harness time, not simulated)

    def fails(self, spec, signature):
        import time
        if self.used >= self.budget or time.time() > self.deadline:
            self.used = max(self.used, self.budget)
            return None
        self.used += 1
        try:
            res = self.execute(spec, "%s/m%d" % (self.workdir, self.used))
        except Exception:
            return None
        v = res.get("violation")
        if v is not None and v.get("signature") == signature:
            return res
        return None

    def minimise(self, spec, result):
        sig = result["violation"]["signature"]
        best = copy.deepcopy(spec)
        best_res = result
        key = "cases" if "cases" in best else "ops"
        self.key = key
        # 1. truncate
        step = result["violation"].get("step")
        if step is None:
            step = len(best[key]) - 1
        if 0 <= step < len(best[key]) - 1:
            cand = dict(best, **{key: best[key][:step + 1]})
            r = self.fails(cand, sig)
            if r:
                best, best_res = cand, r
        if best.get("fresh") and "fresh" not in sig:
            cand = dict(best, fresh=False)
            r = self.fails(cand, sig)
            if r:
                best, best_res = cand, r
        # 2. ddmin on ops
        best, best_res = self.ddmin(best, best_res, sig, key)
        if best.get("pre_ops"):
            best, best_res = self.ddmin(best, best_res, sig, "pre_ops", allow_empty=True)
        if best.get("others"):
            cand = dict(best, others=[], schedule=None)
            r = self.fails(cand, sig)
            if r:
                best, best_res = cand, r
            else:
                # shrink the other tenant's operation list
                o = best["others"][0]
                sub = {"ops": list(o["ops"])}
                n = 2
                items = list(o["ops"])
                for k in range(len(items) - 1, -1, -1):
                    trial = items[:k] + items[k + 1:]
                    cand = dict(best, others=[dict(o, ops=trial)] + best["others"][1:])
                    r = self.fails(cand, sig)
                    if r:
                        items, best, best_res = trial, cand, r
                        o = best["others"][0]
        # 3. config options
        for k in sorted(best.get("config", {})):
            cfg = dict(best["config"])
            del cfg[k]
            cand = dict(best, config=cfg)
            r = self.fails(cand, sig)
            if r:
                best, best_res = cand, r
        # 4. request simplification
        for i in range(len(best.get("ops", []))):
            op = best["ops"][i]
            if op.get("op") != "req":
                continue
            for variant in self.req_variants(op):
                ops = list(best["ops"])
                ops[i] = variant
                cand = dict(best, ops=ops)
                r = self.fails(cand, sig)
                if r:
                    best, best_res = cand, r
                    break
        # 5. world
        best, best_res = self.shrink_world(best, best_res, sig)
        # 6. ops once more (the smaller world may allow it)
        best, best_res = self.ddmin(best, best_res, sig, key)
        return best, best_res

    def ddmin(self, spec, res, sig, key, allow_empty=False):
        items = list(spec[key])
        n = 2
        while len(items) >= (1 if allow_empty else 2) and self.used < self.budget:
            chunk = max(1, len(items) // n)
            reduced = False
            for start in range(0, len(items), chunk):
                cand_items = items[:start] + items[start + chunk:]
                if not cand_items and not allow_empty:
                    continue
                cand = dict(spec, **{key: cand_items})
                r = self.fails(cand, sig)
                if r:
                    items, spec, res = cand_items, cand, r
                    n = max(n - 1, 2)
                    reduced = True
                    break
            if not reduced:
                if chunk == 1:
                    break
                n = min(len(items), n * 2)
        return spec, res

    @staticmethod
    def refers(spec, index, name):
        if "cases" in spec:
            return name in json.dumps(spec["cases"])
        return any(op.get("op") in ("req", "sweep") and op.get("input", 0) >= index for op in spec["ops"]) or \
            (spec.get("twin") is not None and spec["twin"] >= index)

    @staticmethod
    def req_variants(op):
        out = []
        if len(op["fields"]) > 1:
            for j in range(len(op["fields"])):
                v = dict(op, fields=op["fields"][:j] + op["fields"][j + 1:])
                out.append(v)
        if isinstance(op.get("index"), dict) and op["index"].get("wrap", 0) > 0:
            out.append(dict(op, index={"wrap": 0}))
        if op.get("ds"):
            out.append(dict(op, ds=0))
        return out

    def shrink_world(self, spec, res, sig):
        from . import world as W
        progress = True
        while progress and self.used < self.budget:
            progress = False
            world = spec["world"]
            cands = []
            # drop the last scored input when nothing refers to it
            n = len(world["inputs"])
            if n > 1 and not self.refers(spec, n - 1, world["inputs"][-1]["name"]):
                w = copy.deepcopy(world)
                w["inputs"] = w["inputs"][:-1]
                cands.append(w)
            if world.get("clim"):
                w = copy.deepcopy(world)
                w["clim"] = None
                cands.append(w)
            u = world["universe"]
            for dim, key in ((0, "times"), (1, "leadtimes"), (2, "locations")):
                if len(u[key]) > 1:
                    for k in range(len(u[key])):
                        w = drop_universe_entry(world, dim, k)
                        if w is not None:
                            cands.append(w)
            for pi, party in enumerate(W.parties(world)):
                for name in sorted(party["fields"]):
                    if len(party["fields"]) > 1:
                        w = copy.deepcopy(world)
                        p2 = W.parties(w)[pi]
                        del p2["fields"][name]
                        p2["layout"]["colorder"] = [c for c in p2["layout"]["colorder"] if c != name]
                        cands.append(w)
                if party["format"] == "nc" and not any(op.get("op") == "arm" and op.get("file") == party["name"] for op in spec.get("ops", [])):
                    w = copy.deepcopy(world)
                    p2 = W.parties(w)[pi]
                    p2["format"] = "text"
                    p2["miss"] = ["nan"]
                    cands.append(w)
            for w in cands:
                cand = dict(spec, world=w)
                r = self.fails(cand, sig)
                if r:
                    spec, res = cand, r
                    progress = True
                    break
        return spec, res


def drop_universe_entry(world, dim, k):
    """World without universe entry k along dim (0 time, 1 leadtime, 2 location); None if a party would be empty."""
    from . import world as W
    w = copy.deepcopy(world)
    key = ("times", "leadtimes", "locations")[dim]
    for party in W.parties(w):
        idx = party[key]
        if k in idx:
            if len(idx) == 1:
                return None
            pos = idx.index(k)
            for name, grid in party["fields"].items():
                if dim == 0:
                    del grid[pos]
                elif dim == 1:
                    for plane in grid:
                        del plane[pos]
                else:
                    for plane in grid:
                        for row in plane:
                            del row[pos]
            idx.remove(k)
        party[key] = [i - 1 if i > k else i for i in party[key]]
    del w["universe"][key][k]
    return w
