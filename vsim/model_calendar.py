"""Independent calendar model in pure integer arithmetic (proleptic Gregorian, UTC).

No datetime, time or calendar module is used, so neither the process time zone nor the wall
clock can reach it.  days_from_civil / civil_from_days follow the well-known era-based algorithm.
"""


def days_from_civil(y, m, d):
    y -= m <= 2
    era = (y if y >= 0 else y - 399) // 400
    yoe = y - era * 400
    doy = (153 * (m + (-3 if m > 2 else 9)) + 2) // 5 + d - 1
    doe = yoe * 365 + yoe // 4 - yoe // 100 + doy
    return era * 146097 + doe - 719468


def civil_from_days(z):
    z += 719468
    era = (z if z >= 0 else z - 146096) // 146097
    doe = z - era * 146097
    yoe = (doe - doe // 1460 + doe // 36524 - doe // 146096) // 365
    y = yoe + era * 400
    doy = doe - (365 * yoe + yoe // 4 - yoe // 100)
    mp = (5 * doy + 2) // 153
    d = doy - (153 * mp + 2) // 5 + 1
    m = mp + 3 if mp < 10 else mp - 9
    return (y + (m <= 2), m, d)


def weekday_monday0(days):
    # 1970-01-01 was a Thursday (Monday=0 -> 3)
    return (days + 3) % 7


def split(t):
    t = int(t)
    days = t // 86400
    return days, t - days * 86400


def year_start(t):
    y, m, d = civil_from_days(split(t)[0])
    return days_from_civil(y, 1, 1) * 86400


def month_start(t):
    y, m, d = civil_from_days(split(t)[0])
    return days_from_civil(y, m, 1) * 86400


def week_start(t):
    days = split(t)[0]
    return (days - weekday_monday0(days)) * 86400


def day_start(t):
    return split(t)[0] * 86400


def timeofday(t):
    return split(t)[1] / 3600.0


_CUM2000 = [0, 31, 60, 91, 121, 152, 182, 213, 244, 274, 305, 335]


def dayofyear2000(t):
    """verif's documented convention: day number of (month, day) in the leap year 2000."""
    y, m, d = civil_from_days(split(t)[0])
    return _CUM2000[m - 1] + d


def dayofmonth(t):
    return civil_from_days(split(t)[0])[2]


def monthofyear(t):
    return civil_from_days(split(t)[0])[1]


def leadtimeday(h):
    return int(h // 24) if h >= 0 else -int((-h) // 24)


BUCKET = {"Year": year_start, "Month": month_start, "Week": week_start, "Day": day_start, "Timeofday": timeofday,
          "Dayofyear": dayofyear2000, "Dayofmonth": dayofmonth, "Monthofyear": monthofyear}


def is_leap(y):
    return y % 4 == 0 and (y % 100 != 0 or y % 400 == 0)


def yday0(y, m, d):
    return days_from_civil(y, m, d) - days_from_civil(y, 1, 1)


def week_U(days):
    """strftime %U: week number of the year with Sunday as first day; days before the first Sunday are week 0."""
    y, m, d = civil_from_days(days)
    yd = yday0(y, m, d)
    wday_sun0 = (weekday_monday0(days) + 1) % 7
    return (yd + 7 - wday_sun0) // 7


def label(axis, t):
    days, sec = split(t)
    y, m, d = civil_from_days(days)
    if axis == "Time":
        return "%04d-%02d-%02d %02d:%02d:%02d" % (y, m, d, sec // 3600, sec % 3600 // 60, sec % 60)
    if axis == "Year":
        return "%04d" % y
    if axis == "Month":
        return "%04d/%02d" % (y, m)
    if axis == "Week":
        return "%04d/%02d" % (y, week_U(days))
    if axis == "Day":
        return "%04d/%02d/%02d" % (y, m, d)
    raise KeyError(axis)


def date_int(days):
    y, m, d = civil_from_days(days)
    return y * 10000 + m * 100 + d


def days_of_date(date):
    return days_from_civil(date // 10000, date // 100 % 100, date % 100)
