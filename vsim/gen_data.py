"""Seeded generation of engine-A specs: world, constructor configuration, client scripts,
the scheduler's interleaving of the clients, and the placement of faults.

Sub-streams (so that minimisation of the op list never shifts the world):
  :world  :config  :ops  :faults  :env
"""
from . import prng
from . import world as W

TIME_AXES = ["Year", "Month", "Week", "Day", "Timeofday", "Dayofyear", "Dayofmonth", "Monthofyear"]
ALL_AXES = ["All", "No", "Time", "Leadtime", "Leadtimeday", "Location", "Lat", "Lon", "Elev"] + TIME_AXES + \
           ["Threshold", "Obs", "Fcst"]


def world_info(world):
    ps = W.parties(world)
    names = set()
    for p in ps:
        names.update(p["fields"].keys())
    info = {"n_inputs": len(world["inputs"]), "n_parties": len(ps), "names": sorted(names),
            "members": max([sum(1 for n in p["fields"] if W.field_kind(n)[0] == "ens") for p in ps] + [0]),
            "thresholds": sorted(set(W.field_kind(n)[1] for n in names if W.field_kind(n)[0] == "thr")),
            "quantiles": sorted(set(W.field_kind(n)[1] for n in names if W.field_kind(n)[0] == "q")),
            "others": sorted(n for n in names if W.field_kind(n)[0] == "other"),
            "has_pit": "pit" in names, "nc_parties": [p for p in ps if p["format"] == "nc"]}
    return info


def gen_config(rng, world, profile):
    u = world["universe"]
    c = {}
    p = profile
    nT, nL, nS = len(u["times"]), len(u["leadtimes"]), len(u["locations"])
    if rng.random() < p.get("p_obs_range", 0.25):
        vals = sorted(rng.sample(range(1, W.case_id(nT - 1, nL - 1, nS - 1) + 2), 2)) if W.case_id(nT - 1, nL - 1, nS - 1) >= 2 else [0, 5]
        c["obs_range"] = [float(vals[0]), float(vals[1])]
    if world.get("clim"):
        c["clim_type"] = rng.choice(["subtract", "subtract", "divide"])
    info = world_info(world)
    if rng.random() < p.get("p_remap", 0.08):
        opts = [["Fcst"]] + [["Other", o] for o in info["others"]] + ([["Pit"]] if info["has_pit"] else [])
        c["obs_field"] = rng.choice(opts)
    if rng.random() < p.get("p_remap", 0.08):
        opts = [["Obs"]] + [["Other", o] for o in info["others"]] + [["Threshold", t] for t in info["thresholds"][:1]] + \
               ([["Ensemble", 0]] if info["members"] else []) + [["Quantile", q] for q in info["quantiles"][:1]]
        c["fcst_field"] = rng.choice(opts)
    if rng.random() < p.get("p_dim_agg", 0.12):
        c["dim_agg_length"] = rng.choice([1, 6, 12, 24, 48, 1000])
        c["dim_agg_axis"] = rng.choice(["Leadtime", "Leadtime", "Time"])
        c["dim_agg_method"] = rng.choice(["mean", "max", "sum", "min", "median", "count"])
    ps = p.get("p_subset", 0.06)
    if rng.random() < ps:
        c["leadtimes"] = sorted(rng.sample(u["leadtimes"], rng.randint(1, nL)))
    if rng.random() < ps:
        c["locations"] = [float(l["id"]) for l in rng.sample(u["locations"], rng.randint(1, nS))]
    if rng.random() < ps:
        c["locations_x"] = [float(rng.choice(u["locations"])["id"])]
    if rng.random() < ps:
        c["times"] = [float(t) for t in sorted(rng.sample(u["times"], rng.randint(1, nT)))]
    if rng.random() < ps:
        c["tods"] = sorted(set(int((t % 86400) // 3600) for t in rng.sample(u["times"], rng.randint(1, nT))))
    if rng.random() < ps:
        c["dates"] = sorted(set(W._date_of(t) for t in rng.sample(u["times"], rng.randint(1, nT))))
    if rng.random() < ps:
        lats = sorted(l["lat"] for l in u["locations"])
        c["lat_range"] = [lats[0] if rng.random() < 0.5 else lats[len(lats) // 2], lats[-1]]
    if rng.random() < ps:
        el = sorted(l["elev"] for l in u["locations"])
        c["elev_range"] = [el[0], el[len(el) // 2] if rng.random() < 0.5 else el[-1]]
    return c


def gen_fields(rng, info, profile):
    """One field list (and whether it is passed as a bare field)."""
    r = rng.random()
    thr_pool = info["thresholds"] + [t for t in W.THRESHOLDS if t not in info["thresholds"]][:1]
    q_pool = info["quantiles"] + [q for q in W.QUANTILES if q not in info["quantiles"]][:1]
    if rng.random() < profile.get("p_near_equal", 0.25):
        # values that np.isclose calls equal but that are different numbers (cache-key identity vs equality)
        thr_pool = thr_pool + [t * (1 - 8e-7) for t in thr_pool[-2:]] + [thr_pool[-1] * (1 + 6e-7)]
        q_pool = q_pool + [q - 2e-7 for q in q_pool[-1:]]
    single = False
    if r < 0.30:
        fields = [["Obs"], ["Fcst"]]
    elif r < 0.40:
        fields = [rng.choice([["Obs"], ["Fcst"]])]
        single = rng.random() < 0.6
    elif r < 0.52 and thr_pool:
        ts = rng.sample(thr_pool, min(len(thr_pool), rng.choice([1, 1, 2])))
        fields = [["Obs"]] + [["Threshold", t] for t in sorted(ts)]
    elif r < 0.58 and q_pool:
        fields = [["Obs"], ["Quantile", rng.choice(q_pool)]]
    elif r < 0.66 and info["has_pit"]:
        fields = rng.choice([[["Obs"], ["Pit"]], [["Pit"]], [["Pit"], ["Fcst"]]])
        single = len(fields) == 1 and rng.random() < 0.5
    elif r < 0.74 and info["members"]:
        m = rng.randrange(0, info["members"] + (1 if rng.random() < 0.2 else 0))
        fields = rng.choice([[["Ensemble", m]], [["Obs"], ["Ensemble", m]], [["Obs"], ["Fcst"], ["Ensemble", m]]])
        single = len(fields) == 1 and rng.random() < 0.5
    elif r < 0.82 and info["others"]:
        o = rng.choice(info["others"])
        fields = rng.choice([[["Other", o]], [["Other", o], ["Obs"]], [["Obs"], ["Fcst"], ["Other", o]]])
        single = len(fields) == 1 and rng.random() < 0.5
    elif r < 0.86:
        fields = rng.choice([[["Fcst"], ["Obs"]], [["Obs"], ["Obs"], ["Fcst"]], [["Fcst"], ["Fcst"]],
                             [["Obs"], ["Fcst"], ["Obs"]]])
    elif r < 0.89:
        fields = rng.choice([[["Other", "nosuchfield"]], [["Spread"]], [["Obs"], ["Other", "nosuchfield"]]])
    else:
        pool = [["Obs"], ["Fcst"]]
        if info["has_pit"]:
            pool.append(["Pit"])
        pool += [["Threshold", t] for t in thr_pool] + [["Quantile", q] for q in q_pool]
        pool += [["Ensemble", m] for m in range(info["members"])] + [["Other", o] for o in info["others"]]
        fields = rng.sample(pool, min(len(pool), rng.randint(1, 3)))
    return fields, single


def gen_axis(rng, profile):
    r = rng.random()
    if r < profile.get("p_axis_all", 0.22):
        return "All"
    if r < profile.get("p_axis_all", 0.22) + 0.15:
        return "No"
    return rng.choice(profile.get("axes", ALL_AXES))


def gen_index(rng, axis):
    if axis == "All":
        return None if rng.random() < 0.8 else 0
    if axis == "No":
        return 0 if rng.random() < 0.8 else None
    r = rng.random()
    if r < 0.9:
        return {"wrap": rng.randrange(0, 12)}
    if r < 0.95:
        return rng.choice([99, 7, -1])
    return None


def gen_input(rng, info):
    r = rng.random()
    if r < 0.93:
        return rng.randrange(info["n_inputs"])
    return rng.choice([info["n_inputs"], -1, info["n_inputs"] + 1])


def client_script(rng, info, profile, kind):
    n = info["n_inputs"]
    ops = []
    if kind == "metric_loop":
        fields, single = gen_fields(rng, info, profile)
        axis = gen_axis(rng, profile)
        slices = [gen_index(rng, axis) for _ in range(rng.randint(1, 3))]
        inputs = list(range(n))
        if rng.random() < 0.3:
            rng.shuffle(inputs)
        for i in inputs:
            for s in slices:
                ops.append({"op": "req", "fields": fields, "single": single, "input": i, "axis": axis, "index": s})
    elif kind == "diagram":
        fields, single = gen_fields(rng, info, profile)
        for i in range(n):
            ops.append({"op": "req", "fields": fields, "single": single, "input": i, "axis": "All", "index": None})
    elif kind == "auto_threshold":
        ops.append({"op": "req", "fields": [["Obs"]], "single": True, "input": 0, "axis": "All", "index": None})
        ops.append({"op": "req", "fields": [["Fcst"]], "single": True, "input": 0, "axis": "All", "index": None})
    elif kind == "probabilistic":
        thr_pool = info["thresholds"] or W.THRESHOLDS[:2]
        ts = sorted(rng.sample(thr_pool, min(len(thr_pool), rng.choice([1, 2]))))
        fields = [["Obs"]] + [["Threshold", t] for t in ts]
        axis = gen_axis(rng, profile)
        s = gen_index(rng, axis)
        for i in range(n):
            ops.append({"op": "req", "fields": fields, "single": False, "input": i, "axis": axis, "index": s})
    elif kind == "from_field":
        fields, _ = gen_fields(rng, info, profile)
        fields = fields[:1]
        axis = gen_axis(rng, profile)
        for i in range(n):
            for s in [gen_index(rng, axis) for _ in range(rng.randint(1, 2))]:
                ops.append({"op": "req", "fields": fields, "single": False, "input": i, "axis": axis, "index": s})
    elif kind == "near_equal":
        # two requests whose threshold / quantile differ by less than np.isclose's tolerance:
        # equal for ==, different numbers for the data
        members = info["members"] > 0
        if rng.random() < 0.75 or not info["quantiles"] and not members:
            pool = [t for t in W.THRESHOLDS if t not in info["thresholds"]] if members and rng.random() < 0.7 else list(W.THRESHOLDS)
            t = rng.choice(pool or W.THRESHOLDS)
            pair = [["Threshold", t], ["Threshold", t * (1 - 8e-7) if rng.random() < 0.5 else t * (1 + 6e-7)]]
        else:
            q = rng.choice(W.QUANTILES)
            pair = [["Quantile", q], ["Quantile", q - 2e-7]]
        if rng.random() < 0.5:
            pair.reverse()
        axis = gen_axis(rng, profile)
        s_ = gen_index(rng, axis)
        i = rng.randrange(n)
        lead = [["Obs"]] if rng.random() < 0.7 else []
        for f in pair + ([pair[0]] if rng.random() < 0.3 else []):
            ops.append({"op": "req", "fields": lead + [f], "single": False, "input": i, "axis": axis, "index": s_})
    else:  # random
        for _ in range(rng.randint(1, 4)):
            fields, single = gen_fields(rng, info, profile)
            axis = gen_axis(rng, profile)
            ops.append({"op": "req", "fields": fields, "single": single, "input": gen_input(rng, info),
                        "axis": axis, "index": gen_index(rng, axis)})
    return ops


CLIENT_KINDS = ["metric_loop", "metric_loop", "diagram", "auto_threshold", "probabilistic", "from_field", "random",
                "random", "near_equal"]


def nc_vars(party):
    out = []
    for n in party["fields"]:
        k = W.field_kind(n)[0]
        out.append({"obs": "obs", "fcst": "fcst", "pit": "pit", "ens": "ensemble", "thr": "cdf", "q": "x",
                    "other": n}[k])
    return sorted(set(out))


def gen_ops(seed_parts, world, profile, max_steps):
    rng = prng.stream(*seed_parts, "ops")
    frng = prng.stream(*seed_parts, "faults")
    erng = prng.stream(*seed_parts, "env")
    info = world_info(world)
    n_clients = rng.randint(1, profile.get("max_clients", 4))
    kinds = profile.get("client_kinds", CLIENT_KINDS)
    clients = []
    for c in range(n_clients):
        script = client_script(rng, info, profile, rng.choice(kinds))
        for op in script:
            op["client"] = c
        clients.append(script)
    # the scheduler: which client issues its next request
    ops = []
    live = [c for c in clients if c]
    while live and len(ops) < max_steps:
        c = rng.choice(live)
        ops.append(c.pop(0))
        if not c:
            live.remove(c)
    # repeats of earlier requests (cache hits, "how often")
    if ops and rng.random() < 0.4:
        for _ in range(rng.randint(1, 2)):
            src = dict(rng.choice(ops))
            ops.insert(rng.randrange(len(ops) + 1), src)
    ops = ops[:max_steps]
    n_datasets = 1
    enabled = profile.get("faults", ["transient_read", "rebuild", "rng", "tz", "clock", "replace_file"])
    # swarm: each run enables its own subset of fault kinds
    enabled = [k for k in enabled if frng.random() < profile.get("p_fault_kind", 0.35)]
    extra = []
    if "rebuild" in enabled and ops:
        pos = frng.randrange(len(ops) + 1)
        extra.append((pos, {"op": "rebuild"}))
        n_datasets = 2
        for j in range(pos, len(ops)):
            if frng.random() < 0.6:
                ops[j]["ds"] = 1
    if "transient_read" in enabled and info["nc_parties"] and ops:
        party = frng.choice(info["nc_parties"])
        vs = nc_vars(party)
        if vs:
            pos = frng.randrange(len(ops))
            extra.append((pos, {"op": "arm", "file": party["name"], "var": frng.choice(vs), "nth": frng.randint(1, 3),
                                "kind": frng.choice(["hdf", "eio"])}))
    if "replace_file" in enabled and ops:
        party = frng.choice(W.parties(world))
        extra.append((frng.randrange(len(ops)), {"op": "replace_file", "file": party["name"], "delta": frng.choice([333.0, 77.0])}))
    # calls of the dataset's other public accessors between the requests (own PRNG stream: nothing else moves)
    arng = prng.stream(*seed_parts, "aux")
    if ops and arng.random() < profile.get("p_aux", 0.3):
        from .engine_data import AUX_CALLS
        for _ in range(arng.randint(1, 3)):
            extra.append((arng.randrange(len(ops) + 1),
                          {"op": "aux", "call": arng.choice(AUX_CALLS), "axis": gen_axis(arng, profile),
                           "input": arng.randrange(info["n_inputs"]), "ds": arng.randrange(n_datasets)}))
    # an asynchronous exception at an arbitrary line of a request (own PRNG stream: nothing else moves)
    irng = prng.stream(*seed_parts, "interrupt")
    if ops and irng.random() < profile.get("p_interrupt", 0.25):
        for _ in range(irng.randint(1, 2)):
            extra.append((irng.randrange(len(ops)),
                          {"op": "interrupt", "nth": irng.choice([irng.randint(1, 40), irng.randint(1, 150), irng.randint(1, 400)]),
                           "exc": irng.choice(["KeyboardInterrupt", "KeyboardInterrupt", "MemoryError"])}))
    if "rng" in enabled:
        for _ in range(frng.randint(1, 2)):
            extra.append((frng.randrange(len(ops) + 1), {"op": "rng", "seed": frng.randrange(2 ** 31),
                                                          "draws": frng.choice([0, 1, 7, 100])}))
    pre_ops = []
    if "tz" in enabled:
        from .seams import ZONES
        for _ in range(erng.randint(1, 3)):
            op = {"op": "tz", "zone": erng.choice(ZONES)}
            if erng.random() < profile.get("p_env_pre", 0.3):
                pre_ops.append(op)
            else:
                extra.append((erng.randrange(len(ops) + 1), op))
    if "clock" in enabled:
        for _ in range(erng.randint(1, 2)):
            op = {"op": "clock", "delta": erng.choice([1, -1, 3600, -3600, 86400 * 366, -86400 * 365 * 30, 86400 * 365 * 80])}
            if erng.random() < profile.get("p_env_pre", 0.3):
                pre_ops.append(op)
            else:
                extra.append((erng.randrange(len(ops) + 1), op))
    for pos, op in sorted(extra, key=lambda x: -x[0]):
        ops.insert(pos, op)
    return ops, pre_ops


PROFILE_C18 = {"n_inputs": (1, 4), "p_clim": 0.25, "p_inf": 0.04, "p_obs_differ": 0.15}


def gen_spec(prop, verif_seed, run, tier, profile=None):
    profile = dict(profile or PROFILE_C18)
    parts = (verif_seed, prop, run)
    wrng = prng.stream(*parts, "world")
    crng = prng.stream(*parts, "config")
    world = W.generate(wrng, profile)
    config = gen_config(crng, world, profile)
    mrng = prng.stream(*parts, "mode")
    max_steps = mrng.randint(2, 12) if tier == "quick" else mrng.choice([mrng.randint(2, 12), mrng.randint(8, 40)])
    ops, pre_ops = gen_ops(parts, world, profile, max_steps)
    spec = {"prop": prop, "seed": verif_seed, "run": run, "tier": tier, "world": world, "config": config,
            "ops": ops, "pre_ops": pre_ops, "pinned": mrng.random() < profile.get("p_pinned", 0.8),
            "pin_seed": 4242}
    return spec
