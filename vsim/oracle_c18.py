"""C18 oracle: query results are independent of query history and repeatable.

Checked after every step over the recorded history (the oracle never issues requests of
its own against the live objects):

 1. refinement against the reference "same request as the only request on a freshly built
    dataset" (status and every array's dtype/shape/bits, NaNs canonicalised);
 2. arrays returned earlier are never altered by later requests;
 3. input objects' data and the stored files are left unmodified.

Relaxation under faults (narrow): the single request during which a transient read fault
fired may end in an exception; if it nevertheless returns data, the data must be right.
"""
import numpy as np

from .engine_data import Oracle, adigest, input_snapshot, file_digest, describe_req


def field_classes(req):
    return "+".join(sorted(set(f[0] for f in req["fields"])))


class C18Oracle(Oracle):
    name = "C18"

    def after_request(self, sim, step, record):
        live_status = record["status"]
        ref = record["ref"]
        req = record["req"]
        if ref is not None:
            exempt = bool(record["fired"]) and live_status != "ok"
            if exempt:
                sim.stats["fault_exempt_requests"] += 1
            elif ref["status"].startswith("construct:"):
                pass
            elif live_status == "ok" and ref["status"] == "ok":
                live_dig = [adigest(a) for a in record["arrays"]]
                if live_dig != ref["dig"]:
                    sim.violate(step, "ref_mismatch", {
                        "sub": "value", "fields": field_classes(req), "axis": req["axis"],
                        "request": describe_req(req), "live": live_dig, "ref": ref["dig"],
                        "excerpt": excerpt(record["arrays"], ref.get("arrays"))})
                    return
            elif live_status == "ok" and ref["status"] != "ok":
                sim.violate(step, "ref_mismatch", {
                    "sub": "error_masked_by_history", "fields": field_classes(req), "axis": req["axis"],
                    "request": describe_req(req), "live": live_status, "ref": ref["status"]})
                return
            elif live_status != "ok" and ref["status"] == "ok":
                sim.violate(step, "ref_mismatch", {
                    "sub": "spurious_failure", "fields": field_classes(req), "axis": req["axis"],
                    "request": describe_req(req), "live": live_status, "ref": ref["status"]})
                return
            elif live_status != ref["status"]:
                sim.stats["different_failure"] += 1
        # 2. earlier results never altered
        for (s, arr, dig) in sim.returned:
            if adigest(arr) != dig:
                sim.violate(step, "earlier_result_altered", {"returned_at": s, "altered_at": step,
                                                             "request": describe_req(req)})
                return
        # 3. inputs unmodified
        for k, inp in enumerate(sim.live.inputs):
            snap = input_snapshot(inp)
            if snap != sim.snapshots[k]:
                changed = sorted(n for n in snap if snap[n] != sim.snapshots[k].get(n))
                sim.violate(step, "input_modified", {"input": k, "attributes": changed,
                                                     "request": describe_req(req)})
                return
        for n, d in sim.file_digests.items():
            if file_digest(n) != d:
                sim.violate(step, "file_modified", {"file": n})
                return


def excerpt(arrays, ref_arrays):
    out = {"live": [np.asarray(a).flatten()[:8].tolist() for a in arrays]}
    if ref_arrays is not None:
        out["ref"] = [np.asarray(a).flatten()[:8].tolist() for a in ref_arrays]
    return out


def signature(spec, violation):
    """Stable identification of a violation class for the known-findings file."""
    k = violation["kind"]
    d = violation.get("detail", {})
    if k == "rng_dependent_result":
        w = spec["world"]["variable"]
        needs = "|".join(n for n in ("x0", "x1") if w.get(n) is not None) or "none"
        if "Pit" in d.get("fields", ""):
            return "rng_dependent_result field=Pit requires=x0|x1" if needs != "none" else "rng_dependent_result field=Pit requires=none"
        return "rng_dependent_result fields=%s" % d.get("fields")
    if k == "ref_mismatch":
        return "ref_mismatch sub=%s fields=%s" % (d.get("sub"), d.get("fields"))
    if k == "input_modified":
        return "input_modified attributes=%s" % ",".join(d.get("attributes", []))
    return k
