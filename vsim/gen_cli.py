"""Seeded generation of engine-B (command-line session) specs.

A spec holds the explicit world and a list of *cases*; every case stores its argv lists,
config-file texts and fault plan explicitly, so replay never depends on this generator.
"""
from . import prng
from . import world as W
from . import seams

DET_METRICS = ["mae", "bias", "rmse", "corr", "stderror", "obs", "fcst", "cmae", "dmb", "mbias", "ef", "diff", "ratio",
               "rmsf", "obsstddev", "fcststddev", "nsec", "rankcorr", "derror", "kge", "leps", "count"]
THR_METRICS = ["ets", "hit", "far", "threat", "biasfreq", "pc", "a", "n"]
AXES = ["time", "leadtime", "year", "month", "week", "day", "timeofday", "dayofyear", "monthofyear", "dayofmonth",
        "location", "elev", "lat", "lon", "leadtimeday", "no"]
AGGS = ["mean", "median", "min", "max", "std", "variance", "iqr", "range", "count", "sum", "meanabs", "absmean", "0.5", "0.9"]
BINS = ["below", "below=", "above", "above=", "within", "=within", "within=", "=within="]

LEG_STYLES = ["L%d_x", "L%d_x", "exp#%d", "Bob's%d", 'q"%d', "a\\n%d", "#%d", "'%d'", "L%d_x", "r\\%d", "L%d_x"]

PROFILE_CLI = {
    "n_inputs": (1, 3), "p_clim": 0.3, "p_has_obs": 0.9, "p_has_fcst": 1.0, "p_party_has": 0.95,
    "miss_rates": [0.0, 0.05, 0.15, 0.3], "p_keep_dim": 0.9, "n_times": (1, 4), "n_leadtimes": (1, 3),
    "n_locations": (1, 3), "p_pit": 0.3, "p_x0": 0.15, "p_ens": 0.3, "p_thr": 0.3, "p_q": 0.3, "p_other": 0.3,
    "p_nc": 0.35, "p_no_id": 0.15,
}


def _vec(rng, values):
    """Render numbers in the documented vector syntax (commas, a:b, a:step:b)."""
    vals = sorted(set(values))
    if len(vals) >= 2 and all(float(v) == int(v) for v in vals) and rng.random() < 0.3:
        lo, hi = int(vals[0]), int(vals[-1])
        if hi - lo <= 400:
            return "%d:%d" % (lo, hi)
    return ",".join(W._fmt_num(v) for v in vals)


def gen_command(rng, world, allow_f=True, auto_thresholds=False):
    """Returns {"files": [...], "groups": [[tok,...], ...]}; groups never repeat an option."""
    u = world["universe"]
    inputs = [p["name"] for p in world["inputs"]]
    info_names = set()
    for p in W.parties(world):
        info_names.update(p["fields"])
    others = sorted(n for n in info_names if W.field_kind(n)[0] == "other")
    thr = sorted(set(W.field_kind(n)[1] for n in info_names if W.field_kind(n)[0] == "thr"))
    qs = sorted(set(W.field_kind(n)[1] for n in info_names if W.field_kind(n)[0] == "q"))
    k = rng.randint(1, len(inputs))
    start = rng.randint(0, len(inputs) - k)
    files = inputs[start:start + k]
    if rng.random() < 0.15:
        rng.shuffle(files)
    groups = []
    r = rng.random()
    listing = False
    if r < 0.08:
        listing = True
        groups.append([rng.choice(["--list-times", "--list-dates", "--list-locations", "--list-thresholds", "--list-quantiles"])])
        if rng.random() < 0.3:
            groups.append(["-m", "mae"])
    else:
        r2 = rng.random()
        if r2 < 0.72:
            groups.append(["-m", rng.choice(DET_METRICS)])
        elif r2 < 0.78:
            groups.append(["-m", rng.choice(THR_METRICS)])
            if auto_thresholds and rng.random() < 0.4:
                pass        # no -r: thresholds are derived from the data of the first file
            else:
                groups.append(["-r", _vec(rng, rng.sample(range(1, 200), rng.randint(1, 3)))])
        elif r2 < 0.83 and thr:
            groups.append(["-m", rng.choice(["bs", "bss", "bsrel"])])
            groups.append(["-r", W._fmt_num(rng.choice(thr))])
        elif r2 < 0.88 and qs:
            groups.append(["-m", rng.choice(["quantilescore", "quantile", "quantilecoverage"])])
            groups.append(["-q", W._fmt_num(rng.choice(qs))])
        elif r2 < 0.92 and "pit" in info_names:
            groups.append(["-m", rng.choice(["pitdev", "pit", "pithistslope", "pithistshape"])])
        elif r2 < 0.96:
            groups.append(["-m", "within"])
            a, b = sorted(rng.sample(range(0, 300), 2))
            groups.append(["-r", "%d,%d" % (a, b)])
            groups.append(["-b", rng.choice(BINS[4:])])
        else:
            groups.append(["-m", rng.choice(others + ["nosuchmetric"])])
        groups.append(["-type", rng.choice(["csv", "csv", "text"])])
    if rng.random() < 0.5:
        groups.append(["-x", rng.choice(AXES)])
    if rng.random() < 0.25:
        groups.append(["-agg", rng.choice(AGGS)])
    if rng.random() < 0.06 and not any(g[0] == "-b" for g in groups):
        groups.append(["-b", rng.choice(BINS[:4])])
    if rng.random() < 0.05:
        groups.append(["-obs", rng.choice(["fcst", "obs"] + others)])
    if rng.random() < 0.05:
        groups.append(["-fcst", rng.choice(["obs", "fcst"] + others)])
    if world.get("clim") and rng.random() < 0.3:
        groups.append([rng.choice(["-c", "-c", "-C"]), world["clim"]["name"]])
    if rng.random() < 0.08:
        groups.append(["-T", str(rng.choice([1, 6, 12, 24, 48]))])
        if rng.random() < 0.5:
            groups.append(["-Tagg", rng.choice(["mean", "max", "sum", "min", "median"])])
        if rng.random() < 0.3:
            groups.append(["-Tx", rng.choice(["leadtime", "time"])])
    ps = 0.07
    if rng.random() < ps:
        groups.append(["-l", _vec(rng, [l["id"] for l in rng.sample(u["locations"], rng.randint(1, len(u["locations"])))])])
    if rng.random() < ps:
        groups.append(["-lx", W._fmt_num(rng.choice(u["locations"])["id"])])
    if rng.random() < ps:
        lats = sorted(l["lat"] for l in u["locations"])
        groups.append(["-latrange", "%s,%s" % (W._fmt_num(lats[0]), W._fmt_num(lats[rng.randrange(len(lats))]))])
    if rng.random() < ps:
        lons = sorted(l["lon"] for l in u["locations"])
        groups.append(["-lonrange", "%s,%s" % (W._fmt_num(lons[rng.randrange(len(lons))]), W._fmt_num(lons[-1]))])
    if rng.random() < ps:
        el = sorted(l["elev"] for l in u["locations"])
        groups.append(["-elevrange", "%s,%s" % (W._fmt_num(el[0]), W._fmt_num(el[rng.randrange(len(el))]))])
    if rng.random() < ps:
        a, b = sorted(rng.sample(range(0, 300), 2))
        groups.append(["-obsrange", "%d,%d" % (a, b)])
    if rng.random() < ps:
        groups.append(["-o", _vec(rng, rng.sample(u["leadtimes"], rng.randint(1, len(u["leadtimes"]))))])
    if rng.random() < ps:
        groups.append(["-t", ",".join("%d" % t for t in sorted(rng.sample(u["times"], rng.randint(1, len(u["times"])))))])
    if rng.random() < ps:
        ds = sorted(set(W._date_of(t) for t in rng.sample(u["times"], rng.randint(1, len(u["times"])))))
        groups.append(["-d", "%d:%d" % (ds[0], ds[-1]) if len(ds) > 1 and rng.random() < 0.5 and ds[-1] - ds[0] < 10000 else ",".join("%d" % d for d in ds)])
    if rng.random() < ps:
        groups.append(["-tod", _vec(rng, sorted(set((t % 86400) // 3600 for t in rng.sample(u["times"], rng.randint(1, len(u["times"]))))))])
    if rng.random() < 0.1:
        # labels are free text: characters that mean something to a shell or to a tokeniser must arrive verbatim
        style = LEG_STYLES[(len(groups) * 7 + len(files) * 3 + len(inputs)) % len(LEG_STYLES)]
        groups.append(["-leg", ",".join(style % i for i in range(len(files)))])
    if rng.random() < 0.08:
        groups.append(["-acc"])
    if rng.random() < 0.02:
        groups.append([rng.choice(["-hist", "-sort"])])
    if allow_f and not listing and rng.random() < 0.15:
        groups.append(["-f", "out.txt"])
    rng.shuffle(groups)
    return {"files": files, "groups": groups}


def linearise(rng, cmd, groups=None, files=None):
    """Interleave files (keeping their relative order) and option groups in a seeded order."""
    groups = list(cmd["groups"] if groups is None else groups)
    files = list(cmd["files"] if files is None else files)
    rng.shuffle(groups)
    items = [("g", g) for g in groups]
    for f in files:
        pass
    # choose insertion slots for files, non-decreasing
    slots = sorted(rng.randint(0, len(items)) for _ in files)
    out = []
    fi = 0
    for pos in range(len(items) + 1):
        while fi < len(files) and slots[fi] == pos:
            out.append(files[fi])
            fi += 1
        if pos < len(items):
            out.extend(items[pos][1])
    return out


def plain(cmd):
    out = list(cmd["files"])
    for g in cmd["groups"]:
        out.extend(g)
    return out


SYNTAX_REJECTS = [
    ("unknown_flag", [["-zz", "3"], ["--nosuchoption", "1"], ["-M", "mae"]]),
    ("malformed_vector", [["-l", "1,a"], ["-l", "1,,2"], ["-o", "1:2:3:4"], ["-l", "1:0:3"], ["-t", "3;4"], ["-o", ":"],
                          ["-l", "x"], ["-d", "2012-01-01"],
                          # strings that Python's float() would accept but the documented syntax does not
                          ["-l", "5e0"], ["-o", "nan"], ["-l", "+5"], ["-t", "1_0"], ["-l", "inf"], ["-o", "6E1"], ["-r", "1e1"]]),
    ("unknown_axis", [["-x", "foo"], ["-Tx", "foo"], ["-x", "Leadtime "], ["-x", "times"]]),
    ("unknown_aggregator", [["-agg", "foo"], ["-Tagg", "foo"], ["-agg", "avg"]]),
    ("range_length", [["-latrange", "5"], ["-lonrange", "1,2,3"], ["-elevrange", "1"], ["-obsrange", "1,2,3"],
                      ["-latrange", "1:3"], ["-obsrange", "7"]]),
    ("nonpositive_T", [["-T", "0"], ["-T", "-3"]]),
    ("quantile_range", [["-q", "1.5"], ["-q", "-0.1"], ["-q", "0.5,2"]]),
]


def gen_reject(rng, cmd):
    cls, variants = rng.choice(SYNTAX_REJECTS)
    bad = rng.choice(variants)
    groups = [g for g in cmd["groups"] if g[0] != bad[0] and not g[0].startswith("--list")]
    if not any(g[0] == "-m" for g in groups) and bad[0] != "-m":
        groups.append(["-m", "mae"])
    if not any(g[0] == "-type" for g in groups):
        groups.append(["-type", "csv"])
    if cls == "unknown_aggregator" and bad[0] == "-Tagg":
        if not any(g[0] == "-T" for g in groups):
            groups.append(["-T", "6"])
    extra = []
    parse_time = cls in ("unknown_flag", "malformed_vector", "unknown_axis", "quantile_range") or bad[0] == "-Tagg"
    if parse_time and rng.random() < 0.15:
        # these are detected while the command line is parsed, so --version / --help (acted upon after
        # parsing) must not mask them, wherever they stand
        extra = [[rng.choice(["--version", "--help"])]]
    argv = linearise(rng, cmd, groups + [bad] + extra)
    return cls, argv, bad


def gen_missing_value(rng, cmd):
    """A flag that needs a value placed last, without one."""
    flag = rng.choice(["-m", "-x", "-agg", "-r", "-l", "-f", "-type", "-T", "-latrange", "--config", "-c", "-leg"])
    groups = [g for g in cmd["groups"] if g[0] != flag]
    argv = linearise(rng, cmd, groups) + [flag]
    return "missing_value", argv, [flag]


def gen_config_variant(rng, cmd):
    """Move a subset of the option groups (and possibly a suffix of the files) into 1-2 config files."""
    groups = list(cmd["groups"])
    rng.shuffle(groups)
    n_move = rng.randint(1, len(groups)) if groups else 0
    moved, kept = groups[:n_move], groups[n_move:]
    files = list(cmd["files"])
    moved_files = []
    if rng.random() < 0.15 and len(files) > 1:
        k = rng.randint(1, len(files) - 1)
        moved_files = files[k:]
        files = files[:k]
    n_cfg = 2 if (len(moved) >= 2 and rng.random() < 0.4) else 1
    configs = {}
    cfg_names = ["cfg%d.txt" % i for i in range(n_cfg)]
    parts = [moved] if n_cfg == 1 else [moved[:len(moved) // 2], moved[len(moved) // 2:]]
    for ci, (name, gs) in enumerate(zip(cfg_names, parts)):
        toks = []
        for g in gs:
            toks.extend(g)
        if ci == n_cfg - 1:
            toks.extend(moved_files)          # files moved last, so their relative order is kept
        text = ""
        for t in toks:
            text += t + rng.choice([" ", "\n", "  ", "\t", " \n"])
        if rng.random() < 0.2:
            text = "\n" + text
        if rng.random() < 0.35:
            text = text.rstrip()          # final line without newline / trailing blank
            configs[name] = text
        else:
            configs[name] = text + ("\n" if rng.random() < 0.7 else "")
    cfg_groups = [["--config", n] for n in cfg_names]
    argv = linearise(rng, cmd, kept + cfg_groups, files)
    return argv, configs


def gen_config_twice(rng, cmd):
    """The same --config file given twice: its tokens count twice, exactly as if written inline twice."""
    groups = [g for g in cmd["groups"] if g[0] not in ("-leg", "-f")]
    rng.shuffle(groups)
    k = rng.randint(0, len(groups))
    moved, kept = groups[:k], groups[k:]
    files = list(cmd["files"])
    in_cfg = files[-1:]
    toks = [t for g in moved for t in g] + in_cfg
    inline = files[:-1] + [t for g in kept for t in g] + toks + toks
    argv = files[:-1] + [t for g in kept for t in g] + ["--config", "cfgtwice.txt", "--config", "cfgtwice.txt"]
    return inline, argv, {"cfgtwice.txt": " ".join(toks) + "\n"}


ENVVARS = [("COLUMNS", "40"), ("COLUMNS", "200"), ("LINES", "10"), ("LANG", "de_DE.UTF-8"), ("LC_ALL", "C"),
           ("LC_NUMERIC", "de_DE.UTF-8"), ("USER", "someoneelse"), ("HOME", "/nonexistent"), ("TERM", "dumb"),
           ("NO_COLOR", "1"), ("MPLCONFIGDIR", "/nonexistent"), ("COLUMNS", None)]

ERRNOS = ["ENOENT", "EACCES", "EISDIR", "EMFILE", "EIO"]


def gen_file_fault(rng, world, cmd):
    """A fault on one of the command's input files (or its climatology file)."""
    names = list(cmd["files"]) + [g[1] for g in cmd["groups"] if g[0] in ("-c", "-C")]
    name = rng.choice(names)
    party = [p for p in W.parties(world) if p["name"] == name][0]
    is_nc = party["format"] == "nc"
    r = rng.random()
    if r < 0.3:
        # NetCDF inputs are opened three times through netCDF4.Dataset (type detection twice, constructor);
        # text inputs once through builtins.open (the NetCDF probe of a text file fails anyway)
        return {"type": "open_error", "file": name, "nth": rng.randint(1, 3) if is_nc else 1, "errno": rng.choice(ERRNOS),
                "seam": "dataset" if is_nc else "open", "persistent": rng.random() < 0.5}
    if r < 0.45 and not is_nc:
        return {"type": "read_error", "file": name, "after": rng.randint(0, 6)}
    others = [p["name"] for p in W.parties(world) if p["name"] != name]
    if r < 0.55 and others:
        # the path holds another (valid) file from the k-th open on: type detection and reading see different bytes
        return {"type": "swap", "file": name, "with": rng.choice(others), "at_open": rng.randint(2, 3) if is_nc else 2}
    if r < 0.75:
        return {"type": "torn", "file": name, "frac": rng.random(), "max": 150 if is_nc else None}
    mode = rng.choice(["empty", "dir", "garbage", "flip", "junk_text", "missing"] + (["nc_nodims", "nc_nodims"] if is_nc else ["partial_line", "partial_line"]))
    return {"type": "corrupt", "file": name, "mode": mode, "frac": rng.random(), "byte": rng.randrange(256)}


def gen_spec_c13(seed, run, tier):
    parts = (seed, "C13", run)
    world = W.generate(prng.stream(*parts, "world"), PROFILE_CLI)
    rng = prng.stream(*parts, "ops")
    frng = prng.stream(*parts, "faults")
    erng = prng.stream(*parts, "env")
    n_cases = rng.randint(3, 8) if tier == "quick" else rng.randint(3, 16)
    cases = []
    for _ in range(n_cases):
        cmd = gen_command(rng, world)
        r = rng.random()
        if world.get("clim") and rng.random() < 0.12:
            # -c / -C: the one given last decides both the file and the operation, so an earlier,
            # overridden one must leave no trace:  X -C f -c f  ==  X -c f
            last = rng.choice(["-c", "-C"])
            first = "-C" if last == "-c" else "-c"
            groups = [g for g in cmd["groups"] if g[0] not in ("-c", "-C")]
            a = list(cmd["files"]) + [t for g in groups for t in g] + [last, world["clim"]["name"]]
            items = [list(g) for g in groups]
            rng.shuffle(items)
            pos = rng.randint(0, len(items))
            b_groups = items[:pos] + [[first, world["clim"]["name"]]] + items[pos:] + [[last, world["clim"]["name"]]]
            extra = items[len(items):]
            b = list(cmd["files"]) + [t for g in b_groups for t in g]
            cases.append({"kind": "order", "sub": "override", "a": a, "b": b})
            continue
        if rng.random() < 0.03:
            # switches that select what is drawn (-hist / -sort, both given): the picture must not depend on
            # which comes first (compared by decoded pixels)
            files = list(cmd["files"])[:2]
            m = rng.choice(["obs", "fcst"])
            a = files + ["-m", m, "-sort", "-hist", "-f", "out.png"]
            b = files + ["-hist", "-m", m, "-f", "out.png", "-sort"] if rng.random() < 0.5 else ["-hist"] + files + ["-sort", "-f", "out.png", "-m", m]
            cases.append({"kind": "order", "sub": "plot_switches", "a": a, "b": b})
            continue
        if r < 0.28:
            cases.append({"kind": "order", "a": plain(cmd), "b": linearise(rng, cmd)})
        elif r < 0.56 and rng.random() < 0.1:
            inline, argv, configs = gen_config_twice(rng, cmd)
            cases.append({"kind": "config", "sub": "twice", "a": inline, "b": argv, "configs": configs})
        elif r < 0.56:
            argv, configs = gen_config_variant(rng, cmd)
            case = {"kind": "config", "a": plain(cmd), "b": argv, "configs": configs}
            if frng.random() < 0.25:
                cfg = frng.choice(sorted(configs))
                n_lines = max(1, configs[cfg].count("\n"))
                if frng.random() < 0.5:
                    case["fault"] = {"type": "open_error", "file": cfg, "nth": 1, "errno": frng.choice(ERRNOS)}
                else:
                    case["fault"] = {"type": "read_error", "file": cfg, "after": frng.randrange(0, n_lines + 1)}
            cases.append(case)
        elif r < 0.78:
            if rng.random() < 0.15:
                cls, argv, bad = gen_missing_value(rng, cmd)
            else:
                cls, argv, bad = gen_reject(rng, cmd)
            case = {"kind": "reject", "cls": cls, "argv": argv, "bad": bad}
            if cls != "missing_value" and rng.random() < 0.3:
                # the offending option arrives through a --config file
                rest = []
                i = 0
                toks = list(argv)
                while i < len(toks):
                    if toks[i:i + len(bad)] == bad:
                        i += len(bad)
                        continue
                    rest.append(toks[i])
                    i += 1
                pos = rng.randint(0, len(rest))
                case["argv"] = rest[:pos] + ["--config", "cfgbad.txt"] + rest[pos:]
                case["configs"] = {"cfgbad.txt": rng.choice([" ", "\n"]).join(bad) + rng.choice(["", "\n"])}
                case["via_config"] = True
            cases.append(case)
        else:
            cmd2 = {"files": cmd["files"], "groups": [g for g in cmd["groups"] if g[0] != "-f"]}
            cases.append({"kind": "fault", "argv": plain(cmd2), "fault": gen_file_fault(frng, world, cmd2)})
        if erng.random() < 0.15:
            cases.append({"kind": "env", "op": {"op": "tz", "zone": erng.choice(seams.ZONES)}})
        if erng.random() < 0.1:
            cases.append({"kind": "env", "op": {"op": "rng", "seed": erng.randrange(2 ** 31), "draws": erng.choice([0, 3, 50])}})
    return {"prop": "C13", "engine": "B", "seed": seed, "run": run, "tier": tier, "world": world, "cases": cases,
            "pinned": True, "pin_seed": 777}


def gen_spec_c18cli(seed, run, tier):
    parts = (seed, "C18cli", run)
    world = W.generate(prng.stream(*parts, "world"), PROFILE_CLI)
    rng = prng.stream(*parts, "ops")
    erng = prng.stream(*parts, "env")
    mrng = prng.stream(*parts, "mode")
    n = rng.randint(3, 7) if tier == "quick" else rng.randint(3, 14)
    cmds = []
    for _ in range(n):
        cmd = gen_command(rng, world, auto_thresholds=True)
        if rng.random() < 0.12:
            # a threshold metric on the automatic-threshold path, along a data dimension
            groups = [g for g in cmd["groups"] if g[0] not in ("-m", "-r", "-q", "-b", "-x") and not g[0].startswith("--list")
                      and g[0] not in ("-hist", "-sort")]
            groups += [["-m", rng.choice(["pc", "hit", "ets", "far", "threat"])], ["-x", rng.choice(["leadtime", "time", "location", "no"])]]
            if not any(g[0] == "-type" for g in groups):
                groups.append(["-type", "csv"])
            cmd = {"files": cmd["files"], "groups": groups}
        cmds.append(plain(cmd))
    cases = [{"kind": "cmd", "argv": a} for a in cmds]
    configs = {}
    if rng.random() < 0.3:
        # a command whose last input file and some options come from a --config file, issued twice
        cmd = gen_command(rng, world, allow_f=False)
        if len(cmd["files"]) >= 1 and cmd["groups"]:
            k = rng.randint(1, len(cmd["groups"]))
            toks = [t for g in cmd["groups"][:k] for t in g] + cmd["files"][-1:]
            configs["sess.cfg"] = " ".join(toks) + "\n"
            argv = cmd["files"][:-1] + [t for g in cmd["groups"][k:] for t in g] + ["--config", "sess.cfg"]
            pos = rng.randint(0, len(cases))
            cases.insert(pos, {"kind": "cmd", "argv": argv})
            cases.append({"kind": "cmd", "argv": list(argv)})
    if rng.random() < 0.5:
        # A ; A + one more option ; A   (an option of one command must not stick to the next)
        cmd = gen_command(rng, world, allow_f=False)
        groups = [g for g in cmd["groups"] if not g[0].startswith("--list") and g[0] not in ("-hist", "-sort")]
        if not any(g[0] == "-m" for g in groups):
            groups += [["-m", rng.choice(["mae", "bias", "rmse", "obs", "fcst", "cmae"])], ["-type", "csv"]]
        have = set(g[0] for g in groups)
        extras = [g for g in ([["-agg", rng.choice(AGGS[1:])], ["-x", rng.choice(AXES)], ["-acc"], ["-b", rng.choice(BINS[:4])],
                               ["-obsrange", "10,150"], ["-T", "6"], ["-leg", ",".join("Z%d" % i for i in range(len(cmd["files"])))],
                               ["-o", W._fmt_num(rng.choice(world["universe"]["leadtimes"]))], ["-agg", "max"], ["-agg", "median"]])
                  if g[0] not in have]
        if extras:
            extra = rng.choice(extras)
            a = list(cmd["files"]) + [t for g in groups for t in g]
            b = a + extra
            pos = rng.randint(0, len(cases))
            cases[pos:pos] = [{"kind": "cmd", "argv": a}, {"kind": "cmd", "argv": b}, {"kind": "cmd", "argv": list(a)}]
    if rng.random() < 0.12:
        # A ; some diagram drawn into a file ; A   (a plot must not leave process-wide settings behind that
        # change the labels or numbers of a later table)
        files = [p["name"] for p in world["inputs"]]
        a = files + ["-m", rng.choice(["mae", "obs", "fcst", "bias"]), "-x", rng.choice(["time", "day", "week", "month", "year", "leadtime"]),
                     "-type", rng.choice(["csv", "text"])]
        diagram = files[:rng.randint(1, len(files))] + ["-m", rng.choice(["meteo", "obsfcst", "qq", "scatter", "timeseries", "error", "freq",
                                                                        "cond", "change", "taylor", "pithist", "reliability"]),
                                                       "-f", "out.png"]
        if rng.random() < 0.5:
            diagram += ["-d", "%d" % W._date_of(rng.choice(world["universe"]["times"]))]
        if rng.random() < 0.3:
            diagram += ["-l", W._fmt_num(rng.choice(world["universe"]["locations"])["id"])]
        pos = rng.randint(0, len(cases))
        cases[pos:pos] = [{"kind": "cmd", "argv": a}, {"kind": "cmd", "argv": diagram}, {"kind": "cmd", "argv": list(a)}]
    # repeats: the same argv issued again later in the session
    for _ in range(rng.randint(1, 3)):
        src = rng.randrange(len(cmds))
        pos = rng.randint(src + 1, len(cases))
        cases.insert(pos, {"kind": "cmd", "argv": list(cmds[src])})
    if mrng.random() < 0.08:
        # a plot rendered twice (decoded-pixel comparison)
        cmd = gen_command(rng, world, allow_f=False)
        groups = [g for g in cmd["groups"] if g[0] not in ("-type", "--list-times", "--list-dates", "--list-locations",
                                                           "--list-thresholds", "--list-quantiles", "-hist", "-sort")]
        if not any(g[0] == "-m" for g in groups):
            groups.append(["-m", "mae"])
        argv = list(cmd["files"]) + [t for g in groups for t in g] + ["-f", "out.png"]
        cases.insert(rng.randint(0, len(cases)), {"kind": "cmd", "argv": argv})
        cases.append({"kind": "cmd", "argv": list(argv)})
    out = []
    for c in cases:
        out.append(c)
        r = erng.random()
        if r < 0.2:
            out.append({"kind": "env", "op": {"op": "rng", "seed": erng.randrange(2 ** 31), "draws": erng.choice([0, 1, 100])}})
        elif r < 0.35:
            out.append({"kind": "env", "op": {"op": "tz", "zone": erng.choice(seams.ZONES)}})
        elif r < 0.45:
            out.append({"kind": "env", "op": {"op": "clock", "delta": erng.choice([1, -3600, 86400 * 400, -86400 * 365 * 20])}})
        elif r < 0.55:
            nm, val = erng.choice(ENVVARS)
            out.append({"kind": "env", "op": {"op": "envvar", "name": nm, "value": val}})
    names_all = set()
    for p_ in world["inputs"]:
        names_all.update(p_["fields"])
    case_pair = sorted(n for n in names_all if n != n.lower() and n.lower() in names_all
                       and all(n in q["fields"] and n.lower() in q["fields"] for q in world["inputs"]))
    if case_pair and len(world["inputs"]) >= 2:
        # two columns that differ only in case: '-m <column>' must pick the same one in every interpreter
        files = [p_["name"] for p_ in world["inputs"]]
        out.insert(0, {"kind": "cmd", "argv": files + ["-m", case_pair[0].lower(), "-type", "csv"]})
    else:
        case_pair = []
    no_id = any(p["layout"].get("no_id") for p in W.parties(world))
    if no_id:
        # station numbering is then verif's own: ask for it explicitly and compare across interpreters
        files = [p["name"] for p in world["inputs"]]
        out.insert(0, {"kind": "cmd", "argv": files + ["-m", "obs", "-x", "location", "-type", "csv"]})
        out.insert(1, {"kind": "cmd", "argv": files + ["--list-locations"]})
    return {"prop": "C18", "engine": "B", "seed": seed, "run": run, "tier": tier, "world": world, "cases": out, "session_configs": configs,
            "pinned": mrng.random() < 0.8, "pin_seed": 777, "reuse_argv": mrng.random() < 0.4,
            "fresh": no_id or bool(case_pair) or mrng.random() < (0.03 if tier == "quick" else 0.06)}
