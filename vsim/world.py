"""Explicit, JSON-able worlds (datasets) for the simulator, their ground truth, and
their materialisation as verif text / NetCDF input files.

A world never depends on the generator once written: the replay file stores the
complete description (dimension lists, every cell, every encoding and layout
choice), and `materialise` is a pure function of that description.

Values are *tags*: obs(case) identifies the (time, leadtime, location) case and is
the same in every input that carries observations; fcst(input, case) identifies
input and case.  All numbers are exactly representable in float32 so the text and
NetCDF materialisations agree bit for bit.
"""
import os
import numpy as np

TEXT_MISS = ["-999", "nan", "NA", "NaN", "-999.0", "missing", "--"]
NC_MISS = ["nan", "-999", "1e31", "fill", "fill:-9999", "fill:1e20"]

LEADTIMES = [0.0, 0.5, 1.0, 3.0, 6.0, 12.0, 18.0, 23.75, 24.0, 30.0, 47.5, 48.0, 72.0, 240.0]
THRESHOLDS = [5.0, 10.0, 16.0, 20.5]
QUANTILES = [0.125, 0.25, 0.5, 0.75]
LOC_POOL = [
    {"id": 3, "lat": 60.25, "lon": 10.5, "elev": 120.0},
    {"id": 18, "lat": 49.25, "lon": -123.0, "elev": 5.0},
    {"id": 104, "lat": -33.5, "lon": 151.25, "elev": 40.5},
    {"id": 7, "lat": 60.25, "lon": 10.5, "elev": 890.0},
    {"id": 250, "lat": 0.0, "lon": 0.0, "elev": 0.0},
    {"id": 41, "lat": 78.25, "lon": 15.5, "elev": 12.0},
]

# calendar boundaries of interest (UTC): year/month/week/day boundaries, leap days, far dates
_BOUNDARIES = [
    946684800,    # 2000-01-01 Sat
    951782400,    # 2000-02-29 leap day
    951868800,    # 2000-03-01
    1072915200,   # 2004-01-01
    1078012800,   # 2004-02-29
    1104537600,   # 2005-01-01 Sat
    1293840000,   # 2011-01-01
    1325376000,   # 2012-01-01 Sunday
    1325462400,   # 2012-01-02 Monday
    1330473600,   # 2012-02-29
    1330560000,   # 2012-03-01
    1356998400,   # 2013-01-01
    1362096000,   # 2013-03-01 (non leap)
    1388534400,   # 2014-01-01
    1419811200,   # 2014-12-29 Monday (ISO week 1 of 2015)
    1420070400,   # 2015-01-01
    1451606400,   # 2016-01-01
    1456704000,   # 2016-02-29
    1483228800,   # 2017-01-01 Sunday
    1509235200,   # 2017-10-29 (EU DST end)
    1520758800,   # 2018-03-11 09:00 (US DST start, 2am PST)
    1583020800,   # 2020-03-01
    1609459200,   # 2021-01-01
    1709164800,   # 2024-02-29
    1735689600,   # 2025-01-01
    2147483647,   # 2038-01-19 03:14:07
    2147558400,   # 2038-01-20
    4102444800,   # 2100-01-01
    4107542400,   # 2100-03-01 (2100 is not a leap year)
    0,            # 1970-01-01
    86400 * 365,  # 1971-01-01
    68169600,     # 1972-02-29
]


def case_id(ti, li, si):
    return 1 + ti * 64 + li * 8 + si


def tag_value(field, k, ti, li, si, extra=0):
    """Deterministic tag for field `field` of party k at universe case (ti, li, si)."""
    cid = case_id(ti, li, si)
    if field == "obs":
        return float(cid)
    if field == "fcst":
        return float(1000 * (k + 1) + cid)
    if field == "pit":
        return ((cid * 7 + k * 13) % 97) / 128.0 + 1.0 / 256.0
    if field[0] == "e" and field[1:].isdigit():
        m = int(field[1:])
        return float((cid * (m + 3) + 5 * k) % 32)
    if field[0] == "p":
        return ((cid * 3 + k * 5 + extra * 11) % 64) / 64.0
    if field[0] == "q":
        return float(500 + (cid % 100) + 2 * extra)
    if field not in ("extra", "spread2", "tagf"):
        return float(7300 + 10 * k + cid)       # a column whose name differs from another one only in case
    return float(7000 + 10 * k + cid)


def _gen_times(rng, profile, n):
    if profile.get("time_profile") == "calendar":
        out = set()
        guard = 0
        while len(out) < n and guard < 200:
            guard += 1
            b = rng.choice(_BOUNDARIES)
            r = rng.random()
            if r < 0.25:
                d = rng.choice([-1, 0, 1, -3600, 3600, 86399, -86400, 43200])
            elif r < 0.5:
                d = rng.choice([-1, 1]) * rng.randrange(0, 8) * 86400 + rng.choice([0, 6, 12, 18, 23]) * 3600
            elif r < 0.75:
                d = rng.randrange(-40, 40) * 86400 + rng.randrange(0, 86400)
            else:
                d = rng.randrange(-400, 400) * 86400 + rng.choice([0, 1800, 3600 * 6, 3600 * 12])
            t = b + d
            if 0 <= t <= 4133980799:  # 1970-01-01 .. 2100-12-31 23:59:59
                out.add(int(t))
        return sorted(out)
    base = rng.choice([1325376000, 1330473600 - 86400, 1356998400 - 2 * 86400, 1419811200, 1483228800 - 86400])
    step = rng.choice([3600, 3600 * 3, 3600 * 6, 3600 * 12, 86400, 86400, 86400 * 7, 86400 * 30])
    out = set()
    t = base + rng.choice([0, 0, 3600 * 6, 3600 * 12, 1800])
    while len(out) < n:
        out.add(int(t))
        t += step * rng.choice([1, 1, 1, 2])
    return sorted(out)


def generate(rng, profile):
    """Draw a world from `rng` under `profile` (dict of knobs; swarm-style)."""
    p = profile
    nT = rng.randint(*p.get("n_times", (1, 5)))
    nL = rng.randint(*p.get("n_leadtimes", (1, 4)))
    nS = rng.randint(*p.get("n_locations", (1, 4)))
    if rng.random() < p.get("p_big_dims", 0.2):
        # occasionally longer axes (orderings with a distinct interior need >= 4 entries)
        which = rng.randrange(3)
        if which == 0:
            nT = max(nT, rng.randint(4, 6))
        elif which == 1:
            nL = max(nL, rng.randint(4, 5))
        else:
            nS = max(nS, rng.randint(4, 6))
    times = _gen_times(rng, p, nT)
    nT = len(times)
    if p.get("leadtime_profile") == "calendar":
        leadtimes = sorted(rng.sample([0.0, 6.0, 12.0, 18.0, 23.75, 24.0, 30.0, 47.5, 48.0, 72.0, 240.0], nL))
    else:
        lo = rng.randrange(0, len(LEADTIMES) - nL + 1)
        leadtimes = sorted(rng.sample(LEADTIMES[lo:lo + nL + 2] if lo + nL + 2 <= len(LEADTIMES) else LEADTIMES[-(nL + 2):], nL))
    locs = [dict(l) for l in rng.sample(LOC_POOL, nS)]
    # one world in four writes its longitudes in the 0..360 convention (valid and common: -123 becomes 237).
    # Decided from what has been drawn already, not from rng, so that no other choice of the run moves.
    from . import prng
    if prng.derive_int("lon360", int(times[0]), len(times), nL, nS) % 4 == 0:
        for l in locs:
            if l["lon"] < 0:
                l["lon"] += 360.0
    n_inputs = rng.randint(*p.get("n_inputs", (1, 4)))
    has_clim = rng.random() < p.get("p_clim", 0.25)
    n_parties = n_inputs + (1 if has_clim else 0)

    var = {"name": rng.choice(["Temperature", "Precip", "Wind speed"]), "units": rng.choice(["C", "mm", "m/s"]),
           "x0": None, "x1": None}
    world_has_pit = rng.random() < p.get("p_pit", 0.4)
    if world_has_pit and rng.random() < p.get("p_x0", 0.15):
        # discrete mass at an observation value that actually occurs
        var["x0"] = float(case_id(rng.randrange(nT), rng.randrange(nL), rng.randrange(nS)))
        if rng.random() < 0.3:
            var["x1"] = float(case_id(rng.randrange(nT), rng.randrange(nL), rng.randrange(nS)))
    n_members_world = rng.choice([0, 0, 1, 2, 3, 4]) if rng.random() < p.get("p_ens", 0.5) else 0
    thr_world = sorted(rng.sample(THRESHOLDS, rng.randint(1, 3))) if rng.random() < p.get("p_thr", 0.4) else []
    q_world = sorted(rng.sample(QUANTILES, rng.randint(1, 3))) if rng.random() < p.get("p_q", 0.3) else []
    others_world = rng.sample(["extra", "spread2", "tagf"], rng.randint(1, 2)) if rng.random() < p.get("p_other", 0.4) else []

    if others_world and (int(times[0]) // 3600 + nS + nT) % 5 == 0:
        # two columns whose names differ only in case (Tmax/tmax); decided from what has been drawn already
        others_world = others_world + [others_world[0].capitalize()]
    obs_holders = [k for k in range(n_parties) if rng.random() < p.get("p_has_obs", 0.75)]
    if not obs_holders and rng.random() < 0.95:
        obs_holders = [rng.randrange(n_parties)]

    parties = []
    anchor = (rng.randrange(nT), rng.randrange(nL), rng.randrange(nS)) if rng.random() < 0.9 else (None, None, None)
    same_base = rng.choice([".nc", ".txt", ".dat"]) if rng.random() < p.get("p_same_basename", 0.12) else None
    for k in range(n_parties):
        is_clim = has_clim and k == n_parties - 1
        fmt = "nc" if rng.random() < p.get("p_nc", 0.35) else "text"
        # own subset + extra-free: dims are subsets of the universe, in own order
        def subset(n, keep_p, must=None):
            idx = [i for i in range(n) if rng.random() < keep_p or i == must]
            if not idx:
                idx = [rng.randrange(n)]
            return idx
        keep = p.get("p_keep_dim", 0.85)
        if rng.random() < p.get("p_full_coverage", 0.3):
            keep = 1.0
        # (one anchor entry per dimension is in every file, so that the common set is rarely empty)
        t_idx = subset(nT, keep, anchor[0])
        l_idx = subset(nL, keep, anchor[1])
        s_idx = subset(nS, keep, anchor[2])

        def reorder(idx):
            # the file lists this dimension in its own order
            mode = rng.choice(["shuffle", "shuffle", "reverse", "interior", "rotate"])
            if mode == "shuffle":
                rng.shuffle(idx)
            elif mode == "reverse":
                idx.reverse()
            elif mode == "interior" and len(idx) >= 4:
                mid = idx[1:-1]
                rng.shuffle(mid)
                idx[1:-1] = mid
            elif mode == "rotate" and len(idx) >= 2:
                k = rng.randrange(1, len(idx))
                idx[:] = idx[k:] + idx[:k]
            else:
                rng.shuffle(idx)
        if fmt == "nc" or rng.random() < 0.3:
            if rng.random() < p.get("p_shuffle_dims", 0.4):
                reorder(t_idx)
            if rng.random() < p.get("p_shuffle_dims", 0.4):
                reorder(l_idx)
        if rng.random() < p.get("p_shuffle_dims", 0.4):
            reorder(s_idx)
        miss_rate = rng.choice(p.get("miss_rates", [0.0, 0.05, 0.15, 0.3, 0.4]))
        fields = {}
        names = []
        if k in obs_holders:
            names.append("obs")
        if rng.random() < p.get("p_has_fcst", 0.95) or is_clim:
            names.append("fcst")
        if world_has_pit and rng.random() < p.get("p_party_has", 0.85):
            names.append("pit")
        nm = n_members_world
        if nm and rng.random() < 0.25:
            nm = rng.randint(0, nm)
        names += ["e%d" % m for m in range(nm)]
        thr = [t for t in thr_world if rng.random() < p.get("p_party_has", 0.85)]
        qs = [q for q in q_world if rng.random() < p.get("p_party_has", 0.85)]
        names += ["p%g" % t for t in thr] + ["q%g" % q for q in qs]
        oth = [o for o in others_world if rng.random() < p.get("p_party_has", 0.85)]
        names += oth
        if not any(n in ("obs", "fcst") or n[0] in "pq" for n in names):
            names.append("fcst")
        whole_missing_field = rng.choice(names) if rng.random() < p.get("p_whole_field_missing", 0.03) else None
        for name in names:
            extra = 0
            if name[0] == "p" and name != "pit" and name[1:].replace(".", "").isdigit():
                extra = THRESHOLDS.index(float(name[1:]))
            elif name[0] == "q" and name[1:].replace(".", "").isdigit():
                extra = QUANTILES.index(float(name[1:]))
            rate = miss_rate if rng.random() < 0.8 else rng.choice([0.0, 0.5])
            if name == whole_missing_field:
                rate = 1.0
            grid = []
            for ti in t_idx:
                plane = []
                for li in l_idx:
                    row = []
                    for si in s_idx:
                        if rng.random() < rate:
                            row.append(None)
                        else:
                            row.append(tag_value(name, k, ti, li, si, extra))
                    plane.append(row)
                grid.append(plane)
            fields[name] = grid
        # whole missing slice at low rate
        if rng.random() < p.get("p_slice_missing", 0.08) and fields:
            name = rng.choice(sorted(fields))
            a = rng.randrange(len(t_idx))
            for j in range(len(l_idx)):
                for s in range(len(s_idx)):
                    fields[name][a][j][s] = None
        absent_rows = rng.random() < p.get("p_absent_rows", 0.25)
        if absent_rows and fields:
            # a station that did not report: every field missing for a few (time, leadtime, location)
            # combinations; a sparse text file then has no row at all for them
            for _ in range(rng.randint(1, 3)):
                a, b_, c_ = rng.randrange(len(t_idx)), rng.randrange(len(l_idx)), rng.randrange(len(s_idx))
                for g in fields.values():
                    g[a][b_][c_] = None
        tsel = [times[i] for i in t_idx]
        if all(t % 86400 == 0 for t in tsel):
            timecol = rng.choice(["date", "date_hour", "unixtime"])
        elif all(t % 1800 == 0 for t in tsel):
            timecol = rng.choice(["date_hour", "unixtime"])
        else:
            timecol = "unixtime"
        if any(t < 0 for t in tsel):
            timecol = "unixtime"
        cols = list(fields)
        rng.shuffle(cols)
        layout = {
            "timecol": timecol,
            "ltcol": rng.choice(["leadtime", "offset"]),
            "loccol": rng.choice(["location", "id"]),
            "elevcol": rng.choice(["elev", "altitude"]),
            "colorder": cols,
            "cols_first": rng.random() < 0.2,
            "roworder": rng.choice(["tls", "slt", "lts", "rev", "rot"]),
            "sparse": rng.random() < (0.7 if absent_rows else 0.3),
            "sep": rng.choice([" ", " ", "\t", "   "]),
            "ncformat": rng.choice(["NETCDF3_CLASSIC", "NETCDF4", "NETCDF3_CLASSIC"]),
            "ncdtype": rng.choice(["f4", "f8"]),
            "nctime": rng.choice(["i4", "f8"]) if all(-2**31 <= t < 2**31 for t in tsel) else "f8",
        }
        miss = rng.sample(TEXT_MISS, rng.randint(1, 3)) if fmt == "text" else rng.sample(NC_MISS, rng.randint(1, 3))
        if "fill:-9999" in miss and "fill:1e20" in miss:
            miss.remove("fill:1e20")
        if any(m.startswith("fill:") for m in miss) and "fill" in miss:
            miss.remove("fill")
        name = ("clim" if is_clim else "f%d" % k) + (".nc" if fmt == "nc" else ".txt")
        if same_base:
            # the same base name in different directories (expA/T2m.nc, expB/T2m.nc)
            name = "d%d/fc%s" % (k, same_base)
        parties.append({"name": name, "format": fmt, "times": t_idx, "leadtimes": l_idx, "locations": s_idx,
                        "fields": fields, "miss": miss, "layout": layout})
    if has_clim and rng.random() < p.get("p_zero_cases", 0.2):
        # exact zeros (dry days): the climatology is 0 at a few cases, the observation is 0 there in every
        # file that has it, and some files forecast 0 while others do not (0/0 and x/0 under -C)
        for _ in range(rng.randint(1, 3)):
            ti, li, si = rng.randrange(nT), rng.randrange(nL), rng.randrange(nS)
            for k, party in enumerate(parties):
                if ti in party["times"] and li in party["leadtimes"] and si in party["locations"]:
                    i, j, s_ = party["times"].index(ti), party["leadtimes"].index(li), party["locations"].index(si)
                    is_clim_party = has_clim and k == n_parties - 1
                    for name in ("obs", "fcst"):
                        g = party["fields"].get(name)
                        if g is None or g[i][j][s_] is None:
                            continue
                        if name == "obs" or is_clim_party or rng.random() < 0.5:
                            g[i][j][s_] = 0.0
    if rng.random() < p.get("p_inf", 0.0):
        # infinite values (a sensor overflow, a division upstream): verif drops them like missing values
        for _ in range(rng.randint(1, 2)):
            party = rng.choice(parties)
            names = [n for n in party["fields"] if field_kind(n)[0] in ("fcst", "ens", "q", "other", "obs")]
            if not names:
                continue
            g = party["fields"][rng.choice(sorted(names))]
            i, j, s_ = rng.randrange(len(g)), rng.randrange(len(g[0])), rng.randrange(len(g[0][0]))
            if g[i][j][s_] is not None:
                g[i][j][s_] = float("inf") if rng.random() < 0.5 else float("-inf")
    if p.get("p_obs_differ", 0.0) and n_parties > 1 and rng.random() < p["p_obs_differ"]:
        # files that disagree about an observation (another quality control, another station feed): the value
        # of one file is far away (typically outside an -obsrange) or just next to the others'.  Only worlds of
        # checks whose oracle is the fresh-dataset reference use this (C18); the C01 oracles assume tags.
        holders = [q for q in parties if "obs" in q["fields"]]
        if len(holders) > 1:
            q = rng.choice(holders)
            g = q["fields"]["obs"]
            for _ in range(rng.randint(1, 3)):
                i, j, s_ = rng.randrange(len(g)), rng.randrange(len(g[0])), rng.randrange(len(g[0][0]))
                if g[i][j][s_] is not None and abs(g[i][j][s_]) < 1e6:
                    g[i][j][s_] = float(g[i][j][s_] + rng.choice([5000.0, -5000.0, 0.5, 64.0]))
    if n_parties == 1 and rng.random() < p.get("p_no_id", 0.0):
        # a single text file without a location/id column: verif numbers the stations itself
        parties[0]["format"] = "text"
        parties[0]["name"] = parties[0]["name"].replace(".nc", ".txt")
        parties[0]["miss"] = [m for m in parties[0]["miss"] if m in TEXT_MISS] or ["-999"]
        parties[0]["layout"]["no_id"] = True
    world = {"universe": {"times": times, "leadtimes": leadtimes, "locations": locs}, "variable": var,
             "inputs": parties[:n_inputs], "clim": parties[n_inputs] if has_clim else None}
    return world


def parties(world):
    return list(world["inputs"]) + ([world["clim"]] if world.get("clim") else [])


def field_kind(name):
    """Classify a stored column name: obs|fcst|pit|ens|thr|q|other (+ numeric argument)."""
    if name in ("obs", "fcst", "pit"):
        return name, None
    if name[0] == "e" and name[1:].isdigit():
        return "ens", int(name[1:])
    if name[0] == "p":
        try:
            return "thr", float(name[1:])
        except ValueError:
            pass
    if name[0] == "q":
        try:
            return "q", float(name[1:])
        except ValueError:
            pass
    return "other", name


def truth(world):
    """Ground truth: per party, field -> array over the universe (T, L, S); NaN = missing/uncovered."""
    u = world["universe"]
    shape = (len(u["times"]), len(u["leadtimes"]), len(u["locations"]))
    out = []
    for party in parties(world):
        d = {}
        for name, grid in party["fields"].items():
            a = np.full(shape, np.nan)
            for i, ti in enumerate(party["times"]):
                for j, li in enumerate(party["leadtimes"]):
                    for s, si in enumerate(party["locations"]):
                        v = grid[i][j][s]
                        if v is not None:
                            a[ti, li, si] = v
            d[name] = a
        out.append(d)
    return out


def _miss_token(party, i, j, s, f):
    m = party["miss"]
    return m[(i * 7 + j * 3 + s + f) % len(m)]


def _fmt_num(v):
    if v in (float("inf"), float("-inf")):
        return "inf" if v > 0 else "-inf"
    if float(v) == int(v) and abs(v) < 1e15:
        return "%d" % int(v)
    return repr(float(v))


def _date_of(t):
    # integer civil-from-days (no datetime/time so the environment cannot reach it)
    days = t // 86400
    z = days + 719468
    era = (z if z >= 0 else z - 146096) // 146097
    doe = z - era * 146097
    yoe = (doe - doe // 1460 + doe // 36524 - doe // 146096) // 365
    y = yoe + era * 400
    doy = doe - (365 * yoe + yoe // 4 - yoe // 100)
    mp = (5 * doy + 2) // 153
    d = doy - (153 * mp + 2) // 5 + 1
    m = mp + 3 if mp < 10 else mp - 9
    if m <= 2:
        y += 1
    return y * 10000 + m * 100 + d


def text_lines(world, party):
    u = world["universe"]
    lay = party["layout"]
    var = world["variable"]
    lines = []
    lines.append("# variable: %s" % var["name"])
    lines.append("# units: %s" % var["units"])
    if var.get("x0") is not None:
        lines.append("# x0: %s" % _fmt_num(var["x0"]))
    if var.get("x1") is not None:
        lines.append("# x1: %s" % _fmt_num(var["x1"]))
    timecols = {"unixtime": ["unixtime"], "date": ["date"], "date_hour": ["date", "hour"]}[lay["timecol"]]
    coord = timecols + [lay["ltcol"]] + ([] if lay.get("no_id") else [lay["loccol"]]) + ["lat", "lon", lay["elevcol"]]
    data_cols = [c for c in lay["colorder"] if c in party["fields"]]
    header = (data_cols + coord) if lay.get("cols_first") else (coord + data_cols)
    lines.append(lay["sep"].join(header))
    T, L, S = len(party["times"]), len(party["leadtimes"]), len(party["locations"])
    order = lay["roworder"]
    idx = [(i, j, s) for i in range(T) for j in range(L) for s in range(S)]
    if order == "slt":
        idx.sort(key=lambda x: (x[2], x[1], x[0]))
    elif order == "lts":
        idx.sort(key=lambda x: (x[1], x[0], x[2]))
    elif order == "rev":
        idx.reverse()
    elif order == "rot":
        r = len(idx) // 3
        idx = idx[r:] + idx[:r]
    first = True
    for (i, j, s) in idx:
        vals = [party["fields"][c][i][j][s] for c in data_cols]
        if lay.get("sparse") and all(v is None for v in vals) and not first:
            continue
        first = False
        t = u["times"][party["times"][i]]
        lt = u["leadtimes"][party["leadtimes"][j]]
        loc = u["locations"][party["locations"][s]]
        if lay["timecol"] == "unixtime":
            tc = ["%d" % t]
        elif lay["timecol"] == "date":
            tc = ["%d" % _date_of(t)]
        else:
            tc = ["%d" % _date_of(t), _fmt_num((t % 86400) / 3600.0)]
        cc = tc + [_fmt_num(lt)] + ([] if lay.get("no_id") else ["%d" % loc["id"]]) + \
            [_fmt_num(loc["lat"]), _fmt_num(loc["lon"]), _fmt_num(loc["elev"])]
        dc = []
        for f, (c, v) in enumerate(zip(data_cols, vals)):
            dc.append(_miss_token(party, i, j, s, f) if v is None else _fmt_num(v))
        row = (dc + cc) if lay.get("cols_first") else (cc + dc)
        lines.append(lay["sep"].join(row))
    return lines


def write_text(world, party, path):
    with open(path, "w") as f:
        f.write("\n".join(text_lines(world, party)) + "\n")


def write_nc(world, party, path):
    import netCDF4
    u = world["universe"]
    lay = party["layout"]
    var = world["variable"]
    T, L, S = len(party["times"]), len(party["leadtimes"]), len(party["locations"])
    ds = netCDF4.Dataset(path, "w", format=lay["ncformat"])
    try:
        ds.createDimension("time", None if lay["ncformat"] == "NETCDF4" and T % 2 == 0 else T)
        ds.createDimension("leadtime", L)
        ds.createDimension("location", S)
        dt = lay["ncdtype"]
        vt = ds.createVariable("time", lay["nctime"], ("time",))
        vt[:] = np.array([u["times"][i] for i in party["times"]], dtype="i8" if lay["nctime"] == "i4" else "f8")
        vl = ds.createVariable("leadtime", "f4", ("leadtime",))
        vl[:] = np.array([u["leadtimes"][i] for i in party["leadtimes"]], "f4")
        locs = [u["locations"][i] for i in party["locations"]]
        ds.createVariable("location", "i4", ("location",))[:] = np.array([l["id"] for l in locs], "i4")
        ds.createVariable("lat", "f4", ("location",))[:] = np.array([l["lat"] for l in locs], "f4")
        ds.createVariable("lon", "f4", ("location",))[:] = np.array([l["lon"] for l in locs], "f4")
        ds.createVariable("altitude", "f4", ("location",))[:] = np.array([l["elev"] for l in locs], "f4")
        names = [c for c in party["layout"]["colorder"] if c in party["fields"]]
        ens = sorted([n for n in names if field_kind(n)[0] == "ens"], key=lambda n: int(n[1:]))
        thr = sorted([n for n in names if field_kind(n)[0] == "thr"], key=lambda n: float(n[1:]))
        qs = sorted([n for n in names if field_kind(n)[0] == "q"], key=lambda n: float(n[1:]))
        fi = [0]

        def enc(name):
            g = party["fields"][name]
            a = np.zeros((T, L, S), "f8")
            mask = np.zeros((T, L, S), bool)
            for i in range(T):
                for j in range(L):
                    for s in range(S):
                        v = g[i][j][s]
                        if v is None:
                            tok = _miss_token(party, i, j, s, fi[0])
                            if tok == "nan":
                                a[i, j, s] = np.nan
                            elif tok == "-999":
                                a[i, j, s] = -999
                            elif tok == "1e31":
                                a[i, j, s] = 1e31
                            else:
                                # masked: written as the variable's _FillValue (default, -9999 or 1e20)
                                mask[i, j, s] = True
                                a[i, j, s] = 0
                        else:
                            a[i, j, s] = v
            fi[0] += 1
            return a, mask

        custom = [m for m in party["miss"] if m.startswith("fill:")]

        def put(vname, dims, arr, mask):
            fill = 9.96921e36 if dt == "f4" else 9.969209968386869e36
            if custom:
                fill = float(custom[0][5:])
            v = ds.createVariable(vname, dt, dims, fill_value=fill)
            v[:] = np.ma.masked_array(arr, mask)

        for n in names:
            k = field_kind(n)[0]
            if k in ("obs", "fcst", "pit", "other"):
                a, m = enc(n)
                put(n, ("time", "leadtime", "location"), a, m)
        for group, dim, coordname, vname in ((ens, "ensemble_member", None, "ensemble"), (thr, "threshold", "threshold", "cdf"), (qs, "quantile", "quantile", "x")):
            if group:
                ds.createDimension(dim, len(group))
                if coordname:
                    ds.createVariable(coordname, "f4", (dim,))[:] = np.array([float(g[1:]) for g in group], "f4")
                arrs = [enc(g) for g in group]
                a = np.stack([x[0] for x in arrs], axis=-1)
                m = np.stack([x[1] for x in arrs], axis=-1)
                put(vname, ("time", "leadtime", "location", dim), a, m)
        ds.long_name = var["name"]
        ds.units = var["units"]
        if var.get("x0") is not None:
            ds.x0 = float(var["x0"])
        if var.get("x1") is not None:
            ds.x1 = float(var["x1"])
    finally:
        ds.close()


def materialise(world, directory):
    """Write every party's file into `directory`; returns the list of file names (inputs, then clim)."""
    names = []
    os.makedirs(directory, exist_ok=True)
    for party in parties(world):
        path = os.path.join(directory, party["name"])
        if os.path.dirname(party["name"]):
            os.makedirs(os.path.dirname(path), exist_ok=True)
        if party["format"] == "text":
            write_text(world, party, path)
        else:
            write_nc(world, party, path)
        names.append(party["name"])
    return names


def twin(world, victim, delta=250.0, protect=()):
    """Copy of `world` in which party `victim`'s non-missing forecast-type values are changed
    (same missingness, observations untouched)."""
    import copy
    w = copy.deepcopy(world)
    party = parties(w)[victim]
    for name, grid in party["fields"].items():
        kind = field_kind(name)[0]
        if kind == "obs" or name in protect:
            continue
        for plane in grid:
            for row in plane:
                for s, v in enumerate(row):
                    if v is not None:
                        if kind in ("pit", "thr"):
                            row[s] = (v * 0.5 + 0.25) if kind == "thr" else ((v + 0.5) % 1.0 or 0.5)
                        else:
                            row[s] = v + delta
    return w


def knockout(world, cases, victim=None, field=None):
    """Copy of `world` with the universe cases `cases` [(ti, li, si), ...] made missing: only `field` of party
    `victim`, or - when victim is None - every field of every party (the case is deleted from the world).
    Files are written densely (a row per case, missing tokens), so that no dimension entry disappears."""
    import copy
    w = copy.deepcopy(world)
    for k, party in enumerate(parties(w)):
        party["layout"]["sparse"] = False
        for (ti, li, si) in cases:
            if ti in party["times"] and li in party["leadtimes"] and si in party["locations"]:
                i, j, s_ = party["times"].index(ti), party["leadtimes"].index(li), party["locations"].index(si)
                if victim is None:
                    for g in party["fields"].values():
                        g[i][j][s_] = None
                elif k == victim and field in party["fields"]:
                    party["fields"][field][i][j][s_] = None
    return w


def sibling_times(world, rng):
    """Copy of `world` whose universe keeps the number of times and its first and last time but has
    different interior times (a second dataset that collides with the first on any weak fingerprint
    such as (len, first, last)).  None when there are fewer than three times."""
    import copy
    ts = world["universe"]["times"]
    if len(ts) < 3 or ts[-1] - ts[0] < len(ts) + 2:
        return None
    w = copy.deepcopy(world)
    lo, hi = ts[0], ts[-1]
    interior = set()
    guard = 0
    while len(interior) < len(ts) - 2 and guard < 1000:
        guard += 1
        r = rng.random()
        if r < 0.5:
            t = rng.choice(ts[1:-1]) + rng.choice([-1, 1]) * rng.choice([86400, 3600, 7 * 86400, 31 * 86400, 1, 43200])
        else:
            t = rng.randrange(lo + 1, hi)
        if lo < t < hi and t not in ts:
            interior.add(int(t))
    if len(interior) < len(ts) - 2:
        return None
    w["universe"]["times"] = [lo] + sorted(interior) + [hi]
    for p in parties(w):
        p["layout"]["timecol"] = "unixtime"
        if not all(-2 ** 31 <= t < 2 ** 31 for t in w["universe"]["times"]):
            p["layout"]["nctime"] = "f8"
    return w
