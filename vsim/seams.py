"""Seams owned by the simulator.

verif has no injection points of its own, but every place where it meets the
outside world is reachable by rebinding a module attribute from outside /repo:

  verif.util.clean      every lazy NetCDF variable read goes through it   (engine A faults)
  builtins.open         text inputs, --config files, -f outputs           (engine B faults)
  os.path.isfile        Text.is_valid / config existence test             (engine B faults)
  netCDF4.Dataset       type detection + Netcdf constructor               (engine B faults)
  time.time             wall clock                                        (clock jumps)
  TZ + time.tzset()     process time zone                                 (tz jumps)
  numpy.random          global RNG state                                  (rng perturbation)

All wrappers are pass-through unless a fault plan is armed; every firing is counted.
No wrapper draws random numbers or reads a real clock.
"""
import builtins
import errno
import io
import os
import time as _time
from collections import Counter

import numpy as np

ZONES = ["UTC", "Pacific/Kiritimati", "Etc/GMT+12", "America/St_Johns", "Asia/Kathmandu",
         "Australia/Lord_Howe", "Europe/Oslo", "America/Vancouver"]


class Env(object):
    """Simulated process environment: time zone and wall clock."""

    def __init__(self):
        self.zone = "UTC"
        self.clock = 1700000000.0
        self.span = 0.0          # simulated seconds covered by clock jumps
        self.epoch_days = 0      # matplotlib's date epoch, in days since 1970-01-01
        self.epoch = None
        self._real_time = _time.time
        self._installed = False
        self.fired = Counter()

    def _datetime_shim(self):
        """A stand-in for the `datetime` module inside verif's modules whose now()/utcnow()/today() read the
        simulated clock (everything else is the real thing), so that clock jumps reach code that asks for
        the current date."""
        import datetime as _dt
        import types
        env = self

        class SimDateTime(_dt.datetime):
            @classmethod
            def now(cls, tz=None):
                return cls.fromtimestamp(env._fake_time(), tz)

            @classmethod
            def utcnow(cls):
                return cls.utcfromtimestamp(env._fake_time())

            @classmethod
            def today(cls):
                return cls.fromtimestamp(env._fake_time())

        class SimDate(_dt.date):
            @classmethod
            def today(cls):
                return cls.fromtimestamp(env._fake_time())

        shim = types.ModuleType("datetime")
        shim.__dict__.update({k: v for k, v in _dt.__dict__.items() if not k.startswith("__")})
        shim.datetime = SimDateTime
        shim.date = SimDate
        return shim

    def install(self):
        if not self._installed:
            self._saved_tz = os.environ.get("TZ")
            self._saved_env = {}
            _time.time = self._fake_time
            self._installed = True
            self.set_zone("UTC", count=False)
            import sys
            import datetime as _dt
            shim = self._datetime_shim()
            self._patched = []
            for name, mod in list(sys.modules.items()):
                if name.startswith("verif.") and getattr(mod, "datetime", None) is _dt:
                    mod.datetime = shim
                    self._patched.append(mod)

    def set_envvar(self, name, value):
        if name not in self._saved_env:
            self._saved_env[name] = os.environ.get(name)
        if value is None:
            os.environ.pop(name, None)
        else:
            os.environ[name] = value
        self.fired["envvar_change"] += 1

    def uninstall(self):
        if self._installed:
            import datetime as _dt
            for mod in getattr(self, "_patched", []):
                mod.datetime = _dt
            for name, value in getattr(self, "_saved_env", {}).items():
                if value is None:
                    os.environ.pop(name, None)
                else:
                    os.environ[name] = value
            _time.time = self._real_time
            if self.epoch is not None:
                import matplotlib.dates as md
                md._reset_epoch_test_example()
                self.epoch, self.epoch_days = None, 0
            if self._saved_tz is None:
                os.environ.pop("TZ", None)
            else:
                os.environ["TZ"] = self._saved_tz
            _time.tzset()
            self._installed = False

    def _fake_time(self):
        # the simulated clock advances 1 ms per reading so that elapsed-time code sees progress
        self.clock += 0.001
        return self.clock

    def set_zone(self, zone, count=True):
        self.zone = zone
        os.environ["TZ"] = zone
        _time.tzset()
        if count:
            self.fired["tz_jump"] += 1

    def set_mpl_epoch(self, epoch):
        """matplotlib's date epoch (rcParam date.epoch / matplotlib.dates.set_epoch): a process-wide plotting
        setting that date numbers are relative to.  Only ever changed before verif converts its first date."""
        import matplotlib.dates as md
        from . import model_calendar as MC
        md._reset_epoch_test_example()
        md.set_epoch(epoch)
        y, m, d = int(epoch[0:4]), int(epoch[5:7]), int(epoch[8:10])
        self.epoch_days = MC.days_from_civil(y, m, d)
        self.epoch = epoch
        self.fired["mpl_epoch"] += 1

    def jump_clock(self, delta):
        self.clock += delta
        self.span += abs(delta)
        self.fired["clock_jump"] += 1


class CleanFaults(object):
    """Transient read faults at verif.util.clean (the lazy NetCDF read seam)."""

    def __init__(self):
        self.armed = []          # list of dicts {file, var, nth, kind, count}
        self.active = True       # False while the reference model is evaluated
        self.fired_now = []      # faults fired since last reset_fired()
        self.fired = Counter()
        self.reads = 0
        self._orig = None

    def install(self):
        import verif.util
        if self._orig is None:
            self._orig = verif.util.clean
            verif.util.clean = self._clean

    def uninstall(self):
        import verif.util
        if self._orig is not None:
            verif.util.clean = self._orig
            self._orig = None

    def arm(self, file, var, nth, kind="hdf"):
        self.armed.append({"file": file, "var": var, "nth": nth, "kind": kind, "count": 0})

    def reset_fired(self):
        self.fired_now = []

    def _clean(self, data):
        if self.active and self.armed:
            self.reads += 1
            try:
                name = data.name
                path = os.path.normpath(data.group().filepath())
                if os.path.isabs(path):
                    path = os.path.relpath(path)
            except Exception:
                name = path = None
            for f in self.armed:
                if f["var"] == name and f["file"] == path:
                    f["count"] += 1
                    if f["count"] == f["nth"]:
                        self.armed.remove(f)
                        self.fired["transient_read"] += 1
                        self.fired_now.append(f)
                        if f["kind"] == "eio":
                            raise OSError(errno.EIO, "Input/output error (injected)", path)
                        raise RuntimeError("NetCDF: HDF error (injected)")
        return self._orig(data)


class FileFaults(object):
    """Fault plan for builtins.open / os.path.isfile / netCDF4.Dataset (engine B)."""

    ERRNOS = {"ENOENT": errno.ENOENT, "EACCES": errno.EACCES, "EISDIR": errno.EISDIR,
              "EMFILE": errno.EMFILE, "EIO": errno.EIO, "ENOSPC": errno.ENOSPC}

    def __init__(self):
        self.plan = []           # list of dicts; see arm_*
        self.active = True
        self.fired = Counter()
        self.fired_now = []
        self.opens = Counter()   # basename -> number of opens seen (all seams)
        self._orig_open = None
        self._orig_isfile = None
        self._orig_ds = None
        self.swap_hook = None    # callable(basename, nth_open) used by swap_between_opens
        self._created = []       # every netCDF4.Dataset opened through the seam (closed after each command)

    # -- plan -----------------------------------------------------------------
    def arm_open_error(self, base, nth, err, mode="r", seam="open", persistent=False):
        # seam: "open" = builtins.open (text inputs, config files), "dataset" = netCDF4.Dataset
        # persistent: every read-open of the path fails, on both seams (the file is unreadable)
        self.plan.append({"kind": "open_error", "file": base, "nth": nth, "errno": err, "mode": mode, "count": 0,
                          "seam": seam, "persistent": persistent})

    def arm_read_error(self, base, after_lines):
        self.plan.append({"kind": "read_error", "file": base, "after": after_lines})

    def arm_write_error(self, base, err="ENOSPC"):
        self.plan.append({"kind": "write_error", "file": base, "errno": err})

    def clear(self):
        self.plan = []
        self.fired_now = []
        self.opens = Counter()
        self.swap_hook = None

    # -- install --------------------------------------------------------------
    def install(self):
        import netCDF4
        import verif.input
        import verif.util
        if self._orig_open is None:
            self._orig_open = builtins.open
            self._orig_isfile = os.path.isfile
            self._orig_ds = netCDF4.Dataset
            builtins.open = self._open
            os.path.isfile = self._isfile
            # netCDF4.Dataset is a C type: verif looks it up as an attribute of the module at call
            # time, so rebinding the module attribute is enough
            netCDF4.Dataset = self._dataset

    def uninstall(self):
        import netCDF4
        if self._orig_open is not None:
            builtins.open = self._orig_open
            os.path.isfile = self._orig_isfile
            netCDF4.Dataset = self._orig_ds
            self._orig_open = None

    def _fire(self, f):
        self.fired[f["kind"] + (":" + f["errno"] if "errno" in f else "")] += 1
        self.fired_now.append(dict(f))

    def _note_open(self, base):
        self.opens[base] += 1
        if self.swap_hook is not None:
            self.swap_hook(base, self.opens[base])

    def _open(self, file, mode="r", *args, **kwargs):
        if self.active and isinstance(file, str):
            base = os.path.normpath(file)
            tracked = any(f["file"] == base for f in self.plan) or self.swap_hook is not None
            if tracked:
                self._note_open(base)
                for f in list(self.plan):
                    if f["file"] != base:
                        continue
                    if f["kind"] == "open_error" and f.get("persistent") and "w" not in mode and "a" not in mode:
                        self._fire(f)
                        raise OSError(self.ERRNOS[f["errno"]], os.strerror(self.ERRNOS[f["errno"]]) + " (injected)", file)
                    if f["kind"] == "open_error" and not f.get("persistent") and f.get("seam", "open") == "open" and (("w" in mode) == ("w" in f.get("mode", "r"))):
                        f["count"] += 1
                        if f["count"] == f["nth"]:
                            self.plan.remove(f)
                            self._fire(f)
                            raise OSError(self.ERRNOS[f["errno"]], os.strerror(self.ERRNOS[f["errno"]]) + " (injected)", file)
                    elif f["kind"] == "read_error" and "w" not in mode:
                        self.plan.remove(f)
                        real = self._orig_open(file, mode, *args, **kwargs)
                        return _FailingReader(real, f, self)
                    elif f["kind"] == "write_error" and "w" in mode:
                        self.plan.remove(f)
                        real = self._orig_open(file, mode, *args, **kwargs)
                        return _FailingWriter(real, f, self)
        return self._orig_open(file, mode, *args, **kwargs)

    def _isfile(self, path):
        return self._orig_isfile(path)

    def _dataset(self, filename, mode="r", *args, **kwargs):
        if self.active and isinstance(filename, str) and mode == "r":
            base = os.path.normpath(filename)
            tracked = any(f["file"] == base for f in self.plan) or self.swap_hook is not None
            if tracked:
                self._note_open(base)
                for f in list(self.plan):
                    if f["file"] == base and f["kind"] == "open_error" and f.get("persistent"):
                        self._fire(f)
                        raise OSError(self.ERRNOS[f["errno"]], os.strerror(self.ERRNOS[f["errno"]]) + " (injected)", filename)
                    if f["file"] == base and f["kind"] == "open_error" and f.get("seam") == "dataset":
                        f["count"] += 1
                        if f["count"] == f["nth"]:
                            self.plan.remove(f)
                            self._fire(f)
                            raise OSError(self.ERRNOS[f["errno"]], os.strerror(self.ERRNOS[f["errno"]]) + " (injected)", filename)
        ds = self._orig_ds(filename, mode, *args, **kwargs)
        try:
            import weakref
            self._created.append(weakref.ref(ds))
        except TypeError:
            pass
        return ds

    def close_datasets(self):
        """verif never closes its NetCDF inputs; they are closed when the objects are collected.  Force a
        collection after every command (HDF5 would otherwise keep serving a stale handle for a path whose
        bytes the simulator has since replaced) but never close a handle the system under test still
        refers to.  Returns the number of such handles (probe)."""
        import gc
        refs, self._created = self._created, []
        gc.collect()
        still = 0
        for r in refs:
            ds = r()
            if ds is not None:
                try:
                    if ds.isopen():
                        still += 1     # something in the system under test still refers to it: leave it alone
                except Exception:
                    pass
        return still


class _FailingReader(object):
    """Text stream that raises EIO after `after` lines have been delivered."""

    def __init__(self, real, fault, owner):
        self._real = real
        self._fault = fault
        self._owner = owner
        self._n = 0

    def __iter__(self):
        return self

    def __next__(self):
        if self._n >= self._fault["after"]:
            self._owner._fire(self._fault)
            self._fault = dict(self._fault, after=10**9)
            raise OSError(errno.EIO, "Input/output error (injected)")
        self._n += 1
        return next(self._real)

    def readline(self, *a):
        try:
            return self.__next__()
        except StopIteration:
            return ""

    def read(self, *a):
        self._owner._fire(self._fault)
        raise OSError(errno.EIO, "Input/output error (injected)")

    def readlines(self, *a):
        return list(self)

    def close(self):
        self._real.close()

    def __enter__(self):
        return self

    def __exit__(self, *a):
        self.close()

    def __getattr__(self, name):
        return getattr(self._real, name)


class _FailingWriter(object):
    """Text stream whose first write fails (disk full)."""

    def __init__(self, real, fault, owner):
        self._real = real
        self._fault = fault
        self._owner = owner

    def write(self, s):
        self._owner._fire(self._fault)
        e = FileFaults.ERRNOS[self._fault["errno"]]
        raise OSError(e, os.strerror(e) + " (injected)")

    def close(self):
        self._real.close()

    def __enter__(self):
        return self

    def __exit__(self, *a):
        self.close()

    def __getattr__(self, name):
        return getattr(self._real, name)
